//! Shared oracle pieces for the UTXO properties (C01, C04, C05, C06).
use crate::refmodel::{Ledger, RefModel, H32};
use crate::world::World;
use ic_btc_interface::Utxo;
use serde_json::{json, Value};
use std::collections::{BTreeMap, HashSet};

pub type Exp = ((H32, u32), u64, u32); // (outpoint, value, height)

pub fn key_of(u: &Utxo) -> (H32, u32) {
    let t: [u8; 32] = u.outpoint.txid.clone().into();
    (t, u.outpoint.vout)
}

#[derive(Default, Debug, Clone)]
pub struct UtxoDiff {
    pub missing: Vec<Exp>,
    pub surplus: Vec<Exp>,
    pub wrong_height: Vec<((H32, u32), u32, u32)>, // outpoint, expected, observed
    pub wrong_value: Vec<((H32, u32), u64, u64)>,
    pub duplicates: usize,
    pub order_violations: usize,
}

impl UtxoDiff {
    pub fn is_clean(&self) -> bool {
        self.missing.is_empty()
            && self.surplus.is_empty()
            && self.wrong_height.is_empty()
            && self.wrong_value.is_empty()
            && self.duplicates == 0
            && self.order_violations == 0
    }
    pub fn to_json(&self) -> Value {
        let op = |k: &(H32, u32)| format!("{}:{}", crate::util::short(&k.0), k.1);
        json!({
            "missing": self.missing.iter().map(|e| json!({"outpoint": op(&e.0), "value": e.1, "height": e.2})).collect::<Vec<_>>(),
            "surplus": self.surplus.iter().map(|e| json!({"outpoint": op(&e.0), "value": e.1, "height": e.2})).collect::<Vec<_>>(),
            "wrong_height": self.wrong_height.iter().map(|e| json!({"outpoint": op(&e.0), "expected": e.1, "observed": e.2})).collect::<Vec<_>>(),
            "wrong_value": self.wrong_value.iter().map(|e| json!({"outpoint": op(&e.0), "expected": e.1, "observed": e.2})).collect::<Vec<_>>(),
            "duplicates": self.duplicates,
            "order_violations": self.order_violations,
        })
    }
}

pub fn diff_utxos(expected: &[Exp], observed: &[Utxo]) -> UtxoDiff {
    let mut d = UtxoDiff::default();
    let exp: BTreeMap<(H32, u32), (u64, u32)> = expected.iter().map(|e| (e.0, (e.1, e.2))).collect();
    let mut seen: HashSet<(H32, u32)> = HashSet::new();
    let mut last_h: Option<u32> = None;
    for u in observed {
        let k = key_of(u);
        if !seen.insert(k) {
            d.duplicates += 1;
            continue;
        }
        if let Some(lh) = last_h {
            if u.height > lh {
                d.order_violations += 1;
            }
        }
        last_h = Some(u.height);
        match exp.get(&k) {
            None => d.surplus.push((k, u.value, u.height)),
            Some((v, h)) => {
                if *v != u.value {
                    d.wrong_value.push((k, *v, u.value));
                }
                if *h != u.height {
                    d.wrong_height.push((k, *h, u.height));
                }
            }
        }
    }
    for e in expected {
        if !seen.contains(&e.0) {
            d.missing.push(*e);
        }
    }
    d
}

/// Expected UTXOs of book address `a` as of block `tip`.
pub fn expected_at(w: &World, tip: &H32, a: usize) -> Result<(Vec<Exp>, Ledger), String> {
    let ledger = w.refm.ledger_at(tip)?;
    let script = w.book.script(a);
    Ok((RefModel::utxos_of(&ledger, script.as_bytes()), ledger))
}

/// Classifies a UTXO-set disagreement against the recorded findings F2 and F3.
pub fn classify(w: &World, a: usize, tip: &H32, ledger: &Ledger, d: &UtxoDiff) -> Option<&'static str> {
    let only_heights = !d.wrong_height.is_empty()
        && d.missing.is_empty()
        && d.surplus.is_empty()
        && d.wrong_value.is_empty()
        && d.duplicates == 0;
    if only_heights {
        // F2: the reported height is that of another accepted block that contains the
        // same transaction and arrived earlier (order within the answer follows heights,
        // so order_violations are not judged separately here).
        let chain: HashSet<H32> = w.refm.chain_to(tip).into_iter().collect();
        let stable_h = w.stable_height();
        let all = d.wrong_height.iter().all(|(k, exp_h, obs_h)| {
            if *exp_h < stable_h {
                return false; // stable entries carry their own height
            }
            let on_chain = w
                .refm
                .blocks
                .values()
                .find(|b| chain.contains(&b.hash) && b.txs.iter().any(|t| t.txid == k.0));
            let Some(on_chain) = on_chain else { return false };
            w.refm.blocks.values().any(|b| {
                b.hash != on_chain.hash
                    && b.height == *obs_h
                    && b.arrival < on_chain.arrival
                    && b.txs.iter().any(|t| t.txid == k.0)
            })
        });
        if all {
            return Some("F2");
        }
        return None;
    }
    let only_surplus = !d.surplus.is_empty()
        && d.missing.is_empty()
        && d.wrong_height.is_empty()
        && d.wrong_value.is_empty()
        && d.duplicates == 0;
    if only_surplus {
        // F3: each surplus element is a stable UTXO (right value and height) of a book
        // address whose text has the queried text as a proper prefix.
        let q = w.book.text(a);
        let longer: Vec<Vec<u8>> = w
            .book
            .addrs
            .iter()
            .filter(|x| x.text.len() > q.len() && x.text.starts_with(q))
            .map(|x| x.script.to_bytes())
            .collect();
        let stable_h = w.stable_height();
        let ingesting = w.is_ingesting();
        // every output ever created on the chain to `tip` (the stable index also leaks
        // outputs of the longer address that unstable blocks have spent)
        let _ = ledger;
        let mut created: BTreeMap<(H32, u32), (Vec<u8>, u64, u32)> = BTreeMap::new();
        for bh in w.refm.chain_to(tip) {
            let b = w.refm.get(&bh);
            for t in &b.txs {
                for (i, o) in t.outputs.iter().enumerate() {
                    created.insert((t.txid, i as u32), (o.script.clone(), o.value, b.height));
                }
            }
        }
        let all = d.surplus.iter().all(|(k, v, h)| match created.get(k) {
            Some((script, value, height)) => {
                longer.iter().any(|s| s == script)
                    && value == v
                    && height == h
                    && (*h < stable_h || (ingesting && *h == stable_h))
            }
            None => false,
        });
        if all && !longer.is_empty() {
            return Some("F3");
        }
    }
    None
}

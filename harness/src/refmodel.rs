//! The boring reference model: every accepted block with its parent link; everything else
//! is recomputed from scratch by brute force on demand.
use bitcoin::hashes::Hash;
use std::collections::{BTreeMap, HashMap};

pub type H32 = [u8; 32];

#[derive(Clone, Debug, PartialEq, Eq)]
pub struct ROut {
    pub value: u64,
    pub script: Vec<u8>,
}

#[derive(Clone, Debug)]
pub struct RTx {
    pub txid: H32,
    pub coinbase: bool,
    pub inputs: Vec<(H32, u32)>,
    pub outputs: Vec<ROut>,
    pub vsize: u64,
}

#[derive(Clone, Debug)]
pub struct RBlock {
    pub hash: H32,
    pub parent: H32,
    pub height: u32,
    pub arrival: u64,
    pub difficulty: u128,
    pub header: Vec<u8>,
    pub time: u32,
    pub txs: Vec<RTx>,
}

#[derive(Clone, Debug, PartialEq, Eq)]
pub struct LedgerEntry {
    pub value: u64,
    pub script: Vec<u8>,
    pub height: u32,
}

pub type Ledger = BTreeMap<(H32, u32), LedgerEntry>;

#[derive(Clone, Default)]
pub struct RefModel {
    pub blocks: HashMap<H32, RBlock>,
    /// children in arrival order
    pub children: HashMap<H32, Vec<H32>>,
    pub genesis: H32,
    pub next_arrival: u64,
}

pub fn rtx(tx: &bitcoin::Transaction) -> RTx {
    let total = bitcoin::consensus::serialize(tx).len() as u64;
    let mut stripped = tx.clone();
    for i in stripped.input.iter_mut() {
        i.witness = bitcoin::Witness::new();
    }
    let base = bitcoin::consensus::serialize(&stripped).len() as u64;
    let weight = 3 * base + total;
    let coinbase = tx.input.len() == 1 && tx.input[0].previous_output.is_null();
    RTx {
        txid: tx.compute_txid().to_byte_array(),
        coinbase,
        inputs: if coinbase {
            vec![]
        } else {
            tx.input
                .iter()
                .map(|i| (i.previous_output.txid.to_byte_array(), i.previous_output.vout))
                .collect()
        },
        outputs: tx
            .output
            .iter()
            .map(|o| ROut {
                value: o.value.to_sat(),
                script: o.script_pubkey.to_bytes(),
            })
            .collect(),
        vsize: weight.div_ceil(4),
    }
}

impl RefModel {
    pub fn new(genesis: &bitcoin::Block, difficulty: u128) -> Self {
        let mut m = RefModel::default();
        let hash = genesis.block_hash().to_byte_array();
        m.genesis = hash;
        m.blocks.insert(
            hash,
            RBlock {
                hash,
                parent: [0; 32],
                height: 0,
                arrival: 0,
                difficulty,
                header: bitcoin::consensus::serialize(&genesis.header),
                time: genesis.header.time,
                txs: genesis.txdata.iter().map(rtx).collect(),
            },
        );
        m.next_arrival = 1;
        m
    }

    pub fn has(&self, h: &H32) -> bool {
        self.blocks.contains_key(h)
    }

    pub fn get(&self, h: &H32) -> &RBlock {
        self.blocks.get(h).expect("block in reference model")
    }

    /// Records an accepted block. The parent must be known.
    pub fn add_block(&mut self, block: &bitcoin::Block, difficulty: u128) -> H32 {
        let hash = block.block_hash().to_byte_array();
        let parent = block.header.prev_blockhash.to_byte_array();
        let ph = self.get(&parent).height;
        assert!(!self.blocks.contains_key(&hash), "block recorded twice");
        let arrival = self.next_arrival;
        self.next_arrival += 1;
        self.blocks.insert(
            hash,
            RBlock {
                hash,
                parent,
                height: ph + 1,
                arrival,
                difficulty,
                header: bitcoin::consensus::serialize(&block.header),
                time: block.header.time,
                txs: block.txdata.iter().map(rtx).collect(),
            },
        );
        self.children.entry(parent).or_default().push(hash);
        hash
    }

    pub fn kids(&self, h: &H32) -> &[H32] {
        self.children.get(h).map(|v| v.as_slice()).unwrap_or(&[])
    }

    /// All blocks of the subtree rooted at `root`, pre-order, children in arrival order.
    pub fn subtree(&self, root: &H32) -> Vec<H32> {
        let mut out = vec![];
        let mut stack = vec![*root];
        while let Some(h) = stack.pop() {
            out.push(h);
            for k in self.kids(&h).iter().rev() {
                stack.push(*k);
            }
        }
        out
    }

    /// All root-to-leaf paths of the subtree rooted at `root`.
    pub fn leaf_paths(&self, root: &H32) -> Vec<Vec<H32>> {
        let mut out = vec![];
        let mut path = vec![*root];
        self.leaf_paths_rec(&mut path, &mut out);
        out
    }
    fn leaf_paths_rec(&self, path: &mut Vec<H32>, out: &mut Vec<Vec<H32>>) {
        let last = *path.last().unwrap();
        let kids = self.kids(&last).to_vec();
        if kids.is_empty() {
            out.push(path.clone());
            return;
        }
        for k in kids {
            path.push(k);
            self.leaf_paths_rec(path, out);
            path.pop();
        }
    }

    pub fn path_weight(&self, path: &[H32]) -> u128 {
        path.iter().map(|h| self.get(h).difficulty).sum()
    }

    /// The best chain from `anchor`: maximal (sum of difficulty, length); remaining ties go
    /// to the path that, at the first divergence, follows the child received first.
    pub fn best_chain(&self, anchor: &H32) -> Vec<H32> {
        let paths = self.leaf_paths(anchor);
        let mut best: Option<Vec<H32>> = None;
        for p in paths {
            best = Some(match best {
                None => p,
                Some(b) => {
                    let kb = (self.path_weight(&b), b.len());
                    let kp = (self.path_weight(&p), p.len());
                    if kp > kb {
                        p
                    } else if kp < kb {
                        b
                    } else {
                        // first divergence: the child that arrived first wins
                        let i = (0..b.len().min(p.len()))
                            .find(|i| b[*i] != p[*i])
                            .expect("distinct leaf paths diverge");
                        if self.get(&p[i]).arrival < self.get(&b[i]).arrival {
                            p
                        } else {
                            b
                        }
                    }
                }
            });
        }
        best.unwrap()
    }

    /// genesis..=tip
    pub fn chain_to(&self, tip: &H32) -> Vec<H32> {
        let mut v = vec![*tip];
        let mut cur = *tip;
        while cur != self.genesis {
            cur = self.get(&cur).parent;
            v.push(cur);
        }
        v.reverse();
        v
    }

    /// The UTXO set after replaying every transaction from genesis to `tip`.
    /// Errors if a transaction spends something that is not unspent on that chain.
    pub fn ledger_at(&self, tip: &H32) -> Result<Ledger, String> {
        let mut l: Ledger = BTreeMap::new();
        for h in self.chain_to(tip) {
            let b = self.get(&h);
            for tx in &b.txs {
                for inp in &tx.inputs {
                    if l.remove(inp).is_none() {
                        return Err(format!(
                            "input {}:{} not unspent at block {}",
                            hex::encode(inp.0),
                            inp.1,
                            hex::encode(h)
                        ));
                    }
                }
                for (i, o) in tx.outputs.iter().enumerate() {
                    // OP_RETURN outputs are provably unspendable and never enter the ledger
                    if o.script.first() == Some(&0x6a) {
                        continue;
                    }
                    l.insert(
                        (tx.txid, i as u32),
                        LedgerEntry {
                            value: o.value,
                            script: o.script.clone(),
                            height: b.height,
                        },
                    );
                }
            }
        }
        Ok(l)
    }

    /// (outpoint, value, height) of the ledger entries paying exactly `script`.
    pub fn utxos_of(ledger: &Ledger, script: &[u8]) -> Vec<((H32, u32), u64, u32)> {
        ledger
            .iter()
            .filter(|(_, e)| e.script == script)
            .map(|(k, e)| (*k, e.value, e.height))
            .collect()
    }

    /// Longest path (in blocks, inclusive) from `b` down to a leaf.
    pub fn depth(&self, b: &H32) -> u32 {
        1 + self.kids(b).iter().map(|k| self.depth(k)).max().unwrap_or(0)
    }

    /// Heaviest path weight from `b` (inclusive) down to a leaf.
    pub fn weight(&self, b: &H32) -> u128 {
        self.get(b).difficulty + self.kids(b).iter().map(|k| self.weight(k)).max().unwrap_or(0)
    }

    /// Stability count of `b` within the tree rooted at `anchor`:
    /// depth(b) - max depth of the other blocks at the same height (depth(b) if none).
    pub fn stability_count(&self, anchor: &H32, b: &H32) -> i64 {
        let hb = self.get(b).height;
        let d = self.depth(b) as i64;
        let others = self
            .subtree(anchor)
            .into_iter()
            .filter(|x| x != b && self.get(x).height == hb)
            .map(|x| self.depth(&x) as i64)
            .max();
        match others {
            None => d,
            Some(m) => d - m,
        }
    }
}

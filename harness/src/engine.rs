//! E1/E2 engine: exhaustive depth-first exploration of event histories over the real code.
//! A state is the history that reaches it; backtracking = reset + replay.
use serde::Serialize;
use serde_json::{json, Value};
use std::collections::{BTreeMap, HashSet};
use std::sync::atomic::{AtomicBool, AtomicUsize, Ordering};
use std::sync::Mutex;
use std::time::{Duration, Instant};

#[derive(Clone, Debug, Serialize)]
pub struct Violation {
    /// configuration of the exploration part that found it (enough to rebuild the model)
    pub context: Value,
    pub kind: String,
    /// id of the recorded finding whose signature this violation matches, if any
    pub finding: Option<String>,
    pub history: Value,
    pub detail: Value,
}

/// Per-worker sink for verdicts, counters and samples.
#[derive(Default)]
pub struct Out {
    pub violations: Vec<Violation>,
    pub violation_counts: BTreeMap<(String, Option<String>), u64>,
    pub counters: BTreeMap<String, u64>,
    pub states: u64,
    pub transitions: u64,
    pub leaves: u64,
    pub samples: Vec<Value>,
    pub distinct: HashSet<u64>,
    pub outcomes: HashSet<u64>,
    cur_history: Value,
    pub part_ctx: Value,
}

/// In replay mode only violations with exactly this history are kept.
pub static REPLAY_TARGET: std::sync::OnceLock<Value> = std::sync::OnceLock::new();

pub const MAX_KEPT_PER_KIND: u64 = 3;

impl Out {
    pub fn count(&mut self, name: &str) {
        *self.counters.entry(name.to_string()).or_insert(0) += 1;
    }
    pub fn add(&mut self, name: &str, n: u64) {
        *self.counters.entry(name.to_string()).or_insert(0) += n;
    }
    pub fn set_history(&mut self, h: Value) {
        self.cur_history = h;
    }
    pub fn violation(&mut self, kind: &str, finding: Option<&str>, detail: Value) {
        let key = (kind.to_string(), finding.map(|s| s.to_string()));
        let c = self.violation_counts.entry(key.clone()).or_insert(0);
        *c += 1;
        let v = Violation {
            context: self.part_ctx.clone(),
            kind: kind.to_string(),
            finding: finding.map(|s| s.to_string()),
            history: self.cur_history.clone(),
            detail,
        };
        self.keep(v);
    }
    /// Keeps at most MAX_KEPT_PER_KIND violations per (kind, finding): the shortest histories.
    fn keep(&mut self, v: Violation) {
        if let Some(t) = REPLAY_TARGET.get() {
            if v.history == *t {
                self.violations.push(v);
            }
            return;
        }
        let hl = |x: &Violation| x.history.as_array().map(|a| a.len()).unwrap_or(0);
        let same: Vec<usize> = self
            .violations
            .iter()
            .enumerate()
            .filter(|(_, x)| x.kind == v.kind && x.finding == v.finding)
            .map(|(i, _)| i)
            .collect();
        if (same.len() as u64) < MAX_KEPT_PER_KIND {
            self.violations.push(v);
            return;
        }
        let worst = same.into_iter().max_by_key(|i| hl(&self.violations[*i])).unwrap();
        if hl(&v) < hl(&self.violations[worst]) {
            self.violations[worst] = v;
        }
    }

    pub fn merge(&mut self, o: Out) {
        for v in o.violations {
            self.keep(v);
        }
        for (k, c) in o.violation_counts {
            *self.violation_counts.entry(k).or_insert(0) += c;
        }
        for (k, c) in o.counters {
            *self.counters.entry(k).or_insert(0) += c;
        }
        self.states += o.states;
        self.transitions += o.transitions;
        self.leaves += o.leaves;
        for s in o.samples {
            if self.samples.len() < 3 {
                self.samples.push(s);
            }
        }
        self.distinct.extend(o.distinct);
        self.outcomes.extend(o.outcomes);
    }
}

/// A model explored by the engine. `S` is the per-worker mutable context (the real
/// canister of this thread plus reference model plus monitors); it is never cloned.
pub trait Model: Sync {
    type S;
    type Ev: Clone + Send + Sync + std::fmt::Debug + Serialize;
    fn init(&self) -> Self::S;
    /// Events enabled in this state, simplest first.
    fn enabled(&self, s: &Self::S, hist: &[Self::Ev]) -> Vec<Self::Ev>;
    /// Applies one event to the real code (and reference). With `check`, transition
    /// oracles run too. Returns false if the path must end here (e.g. after a trap).
    fn apply(&self, s: &mut Self::S, ev: &Self::Ev, check: bool, out: &mut Out) -> bool;
    /// State oracles.
    fn check(&self, s: &mut Self::S, hist: &[Self::Ev], out: &mut Out);
    /// Key for duplicate detection: two states with equal keys must have the same futures
    /// (complete logical state, monitor state and remaining budgets). None = no merging.
    fn key(&self, _s: &Self::S, _hist: &[Self::Ev]) -> Option<u128> {
        None
    }
    /// Configuration of this model, recorded with every violation for replay.
    fn context(&self) -> Value {
        Value::Null
    }
    /// A sample description of a finished history (observations included).
    fn sample(&self, _s: &mut Self::S, hist: &[Self::Ev]) -> Value {
        json!({ "history": hist })
    }
}

pub struct Limits {
    pub threads: usize,
    pub split_depth: usize,
    pub deadline: Option<Instant>,
}

impl Limits {
    pub fn new(split_depth: usize, max_secs: u64) -> Self {
        Limits {
            threads: std::thread::available_parallelism().map(|n| n.get()).unwrap_or(8).min(16),
            split_depth,
            deadline: Some(Instant::now() + Duration::from_secs(max_secs)),
        }
    }
}

pub struct Explored {
    pub out: Out,
    pub cap_hit: bool,
    pub wall: f64,
}

fn hist_json<E: Serialize>(h: &[E]) -> Value {
    serde_json::to_value(h).unwrap_or(Value::Null)
}

pub struct Visited {
    shards: Vec<Mutex<HashSet<u128>>>,
}

impl Visited {
    pub fn new() -> Self {
        Visited {
            shards: (0..256).map(|_| Mutex::new(HashSet::new())).collect(),
        }
    }
    /// true if the key was new
    pub fn insert(&self, k: u128) -> bool {
        self.shards[(k as usize) & 255].lock().unwrap().insert(k)
    }
    pub fn len(&self) -> usize {
        self.shards.iter().map(|s| s.lock().unwrap().len()).sum()
    }
}

struct Walker<'a, M: Model> {
    m: &'a M,
    out: Out,
    stop: &'a AtomicBool,
    deadline: Option<Instant>,
    visited: &'a Visited,
}

impl<'a, M: Model> Walker<'a, M> {
    fn replay(&mut self, hist: &[M::Ev]) -> Option<M::S> {
        let mut s = self.m.init();
        let mut scratch = Out::default();
        for ev in hist {
            if !self.m.apply(&mut s, ev, false, &mut scratch) {
                return None;
            }
        }
        Some(s)
    }

    /// `s` is at `hist` and has not been checked yet.
    fn dfs(&mut self, mut s: M::S, hist: &mut Vec<M::Ev>, stop_depth: Option<usize>, frontier: &mut Vec<Vec<M::Ev>>, resumed: bool) {
        if self.stop.load(Ordering::Relaxed) {
            return;
        }
        if let Some(d) = self.deadline {
            if Instant::now() > d {
                self.stop.store(true, Ordering::Relaxed);
                return;
            }
        }
        // a resumed frontier state was registered as visited when it was put on the frontier
        let k0 = self.m.key(&s, hist);
        if let (false, Some(k)) = (resumed, k0) {
            if !self.visited.insert(k) {
                self.out.count("engine_merged_into_visited_state");
                return;
            }
        }
        if let Some(sd) = stop_depth {
            if hist.len() == sd {
                frontier.push(hist.clone());
                return;
            }
        }
        self.out.set_history(hist_json(hist));
        self.out.states += 1;
        self.m.check(&mut s, hist, &mut self.out);
        // self-check 1 (on a key-selected eighth of the states): the oracles' probes left the
        // state as it was, so the first child starts from the same state as the replayed ones
        if let Some(k) = k0 {
            if k & 7 == 0 {
                if self.m.key(&s, hist) != Some(k) {
                    self.out.violation(
                        "machinery:probes-changed-state",
                        None,
                        json!({"note": "the state key after the oracle's probes differs from the key before them"}),
                    );
                } else {
                    self.out.count("engine_selfcheck_probes_left_state_unchanged");
                }
            }
        }
        let evs = self.m.enabled(&s, hist);
        if evs.is_empty() {
            self.out.leaves += 1;
            if self.out.samples.len() < 3 {
                let v = self.m.sample(&mut s, hist);
                self.out.samples.push(v);
            }
            return;
        }
        let mut cur = Some(s);
        for ev in evs.iter() {
            let mut st = match cur.take() {
                Some(st) => st,
                None => match self.replay(hist) {
                    Some(st) => {
                        // self-check 2: reset + replay reproduces the identical state
                        if let Some(k) = k0 {
                            if (k >> 3) & 7 == 0 {
                                if self.m.key(&st, hist) != Some(k) {
                                    self.out.violation(
                                        "machinery:replay-not-identical",
                                        None,
                                        json!({"note": "reset + replay of the history gave a state with a different key"}),
                                    );
                                } else {
                                    self.out.count("engine_selfcheck_replays_identical");
                                }
                            }
                        }
                        st
                    }
                    None => {
                        self.out.violation(
                            "machinery:replay-diverged",
                            None,
                            json!({"note": "a prefix that was applied before could not be replayed"}),
                        );
                        return;
                    }
                },
            };
            hist.push(ev.clone());
            self.out.set_history(hist_json(hist));
            self.out.transitions += 1;
            let alive = self.m.apply(&mut st, ev, true, &mut self.out);
            if alive {
                self.dfs(st, hist, stop_depth, frontier, false);
            } else {
                self.out.leaves += 1;
            }
            hist.pop();
        }
    }
}

/// Explores everything the model enables, in parallel below `split_depth`.
pub fn explore<M: Model>(m: &M, lim: &Limits) -> Explored {
    let t0 = Instant::now();
    let stop = AtomicBool::new(false);
    let visited = Visited::new();
    // phase 1: prefixes up to split_depth on this thread
    let mut frontier: Vec<Vec<M::Ev>> = vec![];
    let ctx = m.context();
    let mut w = Walker {
        m,
        out: Out { part_ctx: ctx.clone(), ..Default::default() },
        stop: &stop,
        deadline: lim.deadline,
        visited: &visited,
    };
    let s0 = m.init();
    let mut hist = vec![];
    w.dfs(s0, &mut hist, Some(lim.split_depth), &mut frontier, false);
    let mut total = w.out;
    // phase 2: subtrees in parallel
    let next = AtomicUsize::new(0);
    let merged = Mutex::new(Out::default());
    std::thread::scope(|scope| {
        for _ in 0..lim.threads.max(1) {
            scope.spawn(|| {
                let mut w = Walker {
                    m,
                    out: Out { part_ctx: ctx.clone(), ..Default::default() },
                    stop: &stop,
                    deadline: lim.deadline,
                    visited: &visited,
                };
                loop {
                    let i = next.fetch_add(1, Ordering::Relaxed);
                    if i >= frontier.len() || stop.load(Ordering::Relaxed) {
                        break;
                    }
                    let mut hist = frontier[i].clone();
                    match w.replay(&hist) {
                        Some(s) => {
                            let mut f = vec![];
                            w.dfs(s, &mut hist, None, &mut f, true);
                        }
                        None => w.out.violation(
                            "machinery:replay-diverged",
                            None,
                            json!({"prefix": hist_json(&hist)}),
                        ),
                    }
                }
                merged.lock().unwrap().merge(w.out);
            });
        }
    });
    total.merge(merged.into_inner().unwrap());
    Explored {
        out: total,
        cap_hit: stop.load(Ordering::Relaxed),
        wall: t0.elapsed().as_secs_f64(),
    }
}

/// Replays one history with all oracles on; returns the sink.
pub fn replay_one<M: Model>(m: &M, hist: &[M::Ev]) -> Out {
    let mut out = Out { part_ctx: m.context(), ..Default::default() };
    let mut s = m.init();
    out.set_history(hist_json(&hist[..0]));
    m.check(&mut s, &hist[..0], &mut out);
    for (i, ev) in hist.iter().enumerate() {
        out.set_history(hist_json(&hist[..=i]));
        out.transitions += 1;
        if !m.apply(&mut s, ev, true, &mut out) {
            break;
        }
        out.states += 1;
        m.check(&mut s, &hist[..=i], &mut out);
    }
    out
}

//! Small shared helpers: panic capture, hashing, JSON helpers.
use sha2::{Digest, Sha256};
use std::cell::RefCell;
use std::panic::{catch_unwind, AssertUnwindSafe};

thread_local! {
    static LAST_PANIC: RefCell<Option<String>> = const { RefCell::new(None) };
}

/// Installs a silent panic hook that records the panic message per thread.
pub fn install_panic_hook() {
    std::panic::set_hook(Box::new(|info| {
        let msg = if let Some(s) = info.payload().downcast_ref::<&str>() {
            s.to_string()
        } else if let Some(s) = info.payload().downcast_ref::<String>() {
            s.clone()
        } else {
            "<non-string panic>".to_string()
        };
        let loc = info
            .location()
            .map(|l| format!("{}:{}", l.file(), l.line()))
            .unwrap_or_default();
        LAST_PANIC.with(|p| *p.borrow_mut() = Some(format!("{} @ {}", msg, loc)));
    }));
}

/// Runs `f`, turning a panic into `Err(message)`.
pub fn guarded<R>(f: impl FnOnce() -> R) -> Result<R, String> {
    match catch_unwind(AssertUnwindSafe(f)) {
        Ok(r) => Ok(r),
        Err(_) => Err(LAST_PANIC
            .with(|p| p.borrow_mut().take())
            .unwrap_or_else(|| "<panic without message>".to_string())),
    }
}

pub fn sha256(bytes: &[u8]) -> [u8; 32] {
    let mut h = Sha256::new();
    h.update(bytes);
    h.finalize().into()
}

pub fn sha256d(bytes: &[u8]) -> [u8; 32] {
    sha256(&sha256(bytes))
}

/// A 64-bit fingerprint of a byte string (first 8 bytes of sha256).
pub fn fp64(bytes: &[u8]) -> u64 {
    let h = sha256(bytes);
    u64::from_le_bytes(h[..8].try_into().unwrap())
}

pub fn hex(bytes: &[u8]) -> String {
    hex::encode(bytes)
}

/// Short printable form of a 32-byte hash.
pub fn short(h: &[u8]) -> String {
    hex::encode(&h[..4.min(h.len())])
}

/// Classification of the guard panics of the canister's endpoints.
#[derive(Clone, Debug, PartialEq, Eq, serde::Serialize)]
pub enum Refusal {
    ApiDisabled,
    WrongNetwork,
    NotSynced,
    NotEnoughCycles,
    Other(String),
}

pub fn classify_refusal(msg: &str) -> Refusal {
    if msg.starts_with("Bitcoin API is disabled") {
        Refusal::ApiDisabled
    } else if msg.starts_with("Network must be") {
        Refusal::WrongNetwork
    } else if msg.starts_with("Canister state is not fully synced") {
        Refusal::NotSynced
    } else if msg.starts_with("Received ") && msg.contains("cycles are required") {
        Refusal::NotEnoughCycles
    } else {
        Refusal::Other(msg.to_string())
    }
}

// ---------------------------------------------------------------- stdout discipline
// The validation crate prints diagnostics with println!; the harness's own verdict lines
// must stay parseable, so fd 1 is pointed at /dev/null and the harness writes to a
// duplicate of the original stdout.
use std::io::Write;
use std::sync::{Mutex, OnceLock};

static REAL_STDOUT: OnceLock<Mutex<std::fs::File>> = OnceLock::new();

pub fn mute_stdout() {
    use std::os::fd::FromRawFd;
    unsafe {
        let saved = libc::dup(1);
        let devnull = libc::open(b"/dev/null\0".as_ptr() as *const libc::c_char, libc::O_WRONLY);
        if saved >= 0 && devnull >= 0 {
            libc::dup2(devnull, 1);
            libc::close(devnull);
            let _ = REAL_STDOUT.set(Mutex::new(std::fs::File::from_raw_fd(saved)));
        }
    }
}

pub fn say(line: &str) {
    match REAL_STDOUT.get() {
        Some(f) => {
            let mut f = f.lock().unwrap();
            let _ = writeln!(f, "{}", line);
        }
        None => println!("{}", line),
    }
}

#![allow(dead_code)]
mod chain;
mod engine;
mod factory;
mod ledgercheck;
mod observe;
mod props;
mod refmodel;
mod report;
mod sched;
mod util;
mod world;

fn main() {
    util::install_panic_hook();
    util::mute_stdout();
    let args: Vec<String> = std::env::args().collect();
    if args.len() < 3 {
        eprintln!("usage: btcmc <property> <quick|thorough> | btcmc <property> --replay <file>");
        std::process::exit(3);
    }
    let prop = args[1].as_str();
    let code = if args[2] == "--replay" {
        props::replay(prop, &args[3])
    } else {
        props::run(prop, args[2].as_str())
    };
    std::process::exit(code);
}

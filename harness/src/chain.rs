//! The shared event alphabet of the TREE / LEDGER profiles and its interpretation on the
//! real canister.
use crate::factory::{self, *};
use crate::refmodel::{Ledger, H32};
use crate::world::{Ingested, World};
use bitcoin::Transaction;
use ic_btc_interface::{Network, SetConfigRequest};
use serde::{Deserialize, Serialize};

/// Rebuilds the world configuration from a recorded context.
pub fn cfg_from_context(c: &Value) -> WorldCfg {
    let net = match c["net"].as_str().unwrap_or("regtest") {
        "mainnet" => Network::Mainnet,
        "testnet" => Network::Testnet,
        _ => Network::Regtest,
    };
    let mut cfg = WorldCfg::on(net, c["theta"].as_u64().unwrap_or(2) as u32);
    cfg.lazy_fees = c["lazy_fees"].as_bool().unwrap_or(false);
    cfg.api_access = c["api_access"].as_bool().unwrap_or(true);
    cfg.disable_if_not_synced = c["disable_if_not_synced"].as_bool().unwrap_or(false);
    cfg.syncing = c["syncing"].as_bool().unwrap_or(true);
    cfg.exotic = c["exotic"].as_bool().unwrap_or(false);
    if cfg.exotic {
        cfg.fees = Some(ic_btc_interface::Fees::testnet());
    }
    if c["fees_all_zero"].as_bool().unwrap_or(false) {
        cfg.fees = Some(ic_btc_interface::Fees::default());
    }
    cfg
}

#[derive(Clone, Debug, Serialize, Deserialize, PartialEq, Eq, Hash)]
pub enum Ev {
    /// A new block on the block with id `parent` (0 = genesis, k = k-th accepted block).
    Block { parent: usize, diff: u8, body: u8 },
    /// One ingestion opportunity; `budget` slicing call sites (0 = unlimited).
    Ingest { budget: u32 },
    /// pre_upgrade + post_upgrade; cfg 0 = no argument, 1 = empty request,
    /// 2 = new threshold (current+1), 3 = api_access off then on again afterwards
    Upgrade { cfg: u8 },
    SetThreshold(u32),
    /// `len` announced headers chained on the block with id `on`. The first one is the
    /// header of the block that `Block { parent: on, diff: 1, body: 0 }` would create next.
    Hdr { on: usize, len: u8 },
    /// The block of the `idx`-th announced header arrives (first headers of announced chains
    /// carry their block): competing announced headers are resolved in any order.
    AnnBlock { idx: usize },
}

pub const BODY_CB: u8 = 0;
pub const BODY_SPEND_PARENT: u8 = 1;
pub const BODY_CHAIN: u8 = 2;
pub const BODY_ODD: u8 = 3;
pub const BODY_SHARED: u8 = 4;
pub const BODY_COLLIDE: u8 = 5;
pub const BODY_SPEND_OLD: u8 = 6;
pub const BODY_MULTI: u8 = 7;
pub const BODY_FEE_SEGWIT: u8 = 8;
pub const BODY_FEE_PAIR: u8 = 9;
pub const BODY_FEE_ZERO: u8 = 10;
pub const BODY_ZEROS: u8 = 11;
pub const BODY_FEE_OVERSPEND: u8 = 12;

pub fn body_name(b: u8) -> &'static str {
    match b {
        BODY_CB => "coinbase->A",
        BODY_SPEND_PARENT => "spend parent coinbase -> B",
        BODY_CHAIN => "create-and-spend inside block (A -> C -> D)",
        BODY_ODD => "op_return/zero/bare/large/medium outputs + E",
        BODY_SHARED => "shared transaction T (block#1 coinbase -> F)",
        BODY_COLLIDE => "outputs to colliding p2wpkh/p2wsh pair",
        BODY_SPEND_OLD => "spend oldest book output -> G",
        BODY_MULTI => "coinbase with 3 outputs to A + spend two oldest A outputs -> A,B",
        BODY_FEE_SEGWIT => "coinbase 3xA + segwit spend of oldest A output paying fee 1000",
        BODY_FEE_PAIR => "coinbase A + legacy spend (fee 7) + segwit spend (fee 250000)",
        BODY_FEE_ZERO => "coinbase A + spend with fee 0",
        BODY_FEE_OVERSPEND => "coinbase A + spend with fee 900 + spend whose outputs exceed its inputs (no fee rate)",
        BODY_ZEROS => "coinbase with five outputs to A, the 1st, 3rd and 5th of value 0",
        _ => "?",
    }
}

pub fn coin_value(id: usize) -> u64 {
    1u64 << (id.min(40) as u32 + 4)
}

fn is_book_script(w: &World, script: &[u8]) -> bool {
    w.book.addrs.iter().any(|a| a.script.as_bytes() == script)
}

/// Builds the transactions of a block with the given body on `parent`, or None if the
/// body is not applicable to the parent's chain (every offered block is transaction-valid).
pub fn build_body(w: &World, parent: &H32, body: u8, id: usize) -> Option<Vec<Transaction>> {
    let book = &w.book;
    let ledger: Ledger = w.refm.ledger_at(parent).ok()?;
    let val = coin_value(id);
    let salt = id as u64;
    let cb_a = || coinbase_tx(salt, vec![(val, book.script(A))]);
    // unspent outputs paying a given script, lowest height first (then outpoint)
    let of = |script: &[u8]| {
        let mut v: Vec<((H32, u32), u64, u32)> = ledger
            .iter()
            .filter(|(_, e)| e.script == script)
            .map(|(k, e)| (*k, e.value, e.height))
            .collect();
        v.sort_by_key(|x| (x.2, x.0));
        v
    };
    match body {
        BODY_CB => Some(vec![cb_a()]),
        BODY_SPEND_PARENT => {
            let p = w.refm.get(parent);
            if p.hash == w.refm.genesis {
                return None;
            }
            let cbp = &p.txs[0];
            // the first spendable output of the parent's coinbase
            let key = (0..cbp.outputs.len() as u32)
                .map(|i| (cbp.txid, i))
                .find(|k| ledger.contains_key(k))?;
            let e = ledger.get(&key)?;
            Some(vec![
                cb_a(),
                spend_tx(&[key], vec![(e.value, book.script(B))], 0, 0x11),
            ])
        }
        BODY_CHAIN => {
            let src = of(book.script(A).as_bytes());
            let (k, v, _) = src.first()?;
            let t1 = spend_tx(&[*k], vec![(*v, book.script(C))], 1, 0x21);
            let t1id = txid_of(&t1);
            let t2 = spend_tx(&[(t1id, 0)], vec![(*v, book.script(D))], 0, 0x22);
            Some(vec![cb_a(), t1, t2])
        }
        BODY_ODD => Some(vec![coinbase_tx(
            salt,
            vec![
                (0, op_return()),
                (0, book.script(A)),
                (7, bare_script(id as u8)),
                (9, large_script(id as u8)),
                (11, medium_script(id as u8)),
                (val, book.script(E)),
            ],
        )]),
        BODY_SHARED => {
            if w.ids.len() < 2 {
                return None;
            }
            let b1 = w.refm.get(&w.ids[1]);
            let key = (b1.txs[0].txid, 0u32);
            let e = ledger.get(&key)?;
            // T does not depend on the block that carries it
            let t = spend_tx(&[key], vec![(e.value, book.script(F))], 0, 0x44);
            Some(vec![cb_a(), t])
        }
        BODY_COLLIDE => Some(vec![coinbase_tx(
            salt,
            vec![
                (val, book.script(COL_SHORT)),
                (val + 1, book.script(COL_LONG)),
            ],
        )]),
        BODY_SPEND_OLD => {
            let mut all: Vec<((H32, u32), u64, u32)> = ledger
                .iter()
                .filter(|(_, e)| is_book_script(w, &e.script) && e.value > 0)
                .map(|(k, e)| (*k, e.value, e.height))
                .collect();
            all.sort_by_key(|x| (x.2, x.0));
            let (k, v, _) = all.first()?;
            Some(vec![
                cb_a(),
                spend_tx(&[*k], vec![(*v, book.script(G))], 2, 0x66),
            ])
        }
        BODY_MULTI => {
            let src = of(book.script(A).as_bytes());
            let cb = coinbase_tx(
                salt,
                vec![
                    (val, book.script(A)),
                    (val + 1, book.script(A)),
                    (val + 2, book.script(A)),
                ],
            );
            if src.len() < 2 {
                return Some(vec![cb]);
            }
            let (k0, v0, _) = src[0];
            let (k1, v1, _) = src[1];
            let t = spend_tx(
                &[k0, k1],
                vec![(v0, book.script(A)), (v1, book.script(B))],
                0,
                0x77,
            );
            Some(vec![cb, t])
        }
        BODY_FEE_SEGWIT => {
            let src = of(book.script(A).as_bytes());
            let cb = coinbase_tx(
                salt,
                vec![
                    (1_000_000 + val, book.script(A)),
                    (2_000_000 + val, book.script(A)),
                    (3_000_000 + val, book.script(A)),
                ],
            );
            let mut txs = vec![cb];
            if let Some((k, v, _)) = src.iter().find(|x| x.1 > 1000) {
                txs.push(spend_tx(&[*k], vec![(*v - 1000, book.script(B))], 2, 0x81));
            }
            Some(txs)
        }
        BODY_FEE_PAIR => {
            let src: Vec<_> = of(book.script(A).as_bytes()).into_iter().filter(|x| x.1 > 250_000).collect();
            let mut txs = vec![cb_a()];
            if let Some((k, v, _)) = src.first() {
                txs.push(spend_tx(&[*k], vec![(*v - 7, book.script(C))], 0, 0x91));
            }
            if let Some((k, v, _)) = src.get(1) {
                txs.push(spend_tx(&[*k], vec![(*v - 250_000, book.script(D)), (0, op_return())], 1, 0x92));
            }
            Some(txs)
        }
        BODY_ZEROS => Some(vec![coinbase_tx(
            salt,
            vec![
                (0, book.script(A)),
                (val, book.script(A)),
                (0, book.script(A)),
                (val + 1, book.script(A)),
                (0, book.script(A)),
            ],
        )]),
        BODY_FEE_ZERO => {
            let src = of(book.script(A).as_bytes());
            let mut txs = vec![cb_a()];
            if let Some((k, v, _)) = src.last() {
                txs.push(spend_tx(&[*k], vec![(*v, book.script(E))], 0, 0xa1));
            }
            Some(txs)
        }
        BODY_FEE_OVERSPEND => {
            // amounts are not validated by the canister: a transaction that creates more than it
            // spends pays no fee and has no fee rate
            let src = of(book.script(A).as_bytes());
            if src.len() < 2 {
                return None;
            }
            let (k1, v1, _) = src[src.len() - 1];
            let (k2, v2, _) = src[src.len() - 2];
            if v1 < 900 {
                return None;
            }
            Some(vec![
                cb_a(),
                spend_tx(&[k1], vec![(v1 - 900, book.script(E))], 0, 0xa2),
                spend_tx(&[k2], vec![(v2 + 5_000, book.script(F))], 0, 0xa3),
            ])
        }
        _ => None,
    }
}

/// Builds the block for `Ev::Block` in the current world, if applicable.
pub fn build_block(w: &World, parent_id: usize, body: u8) -> Option<bitcoin::Block> {
    let parent = *w.ids.get(parent_id)?;
    let id = w.ids.len();
    let txs = build_body(w, &parent, body, id)?;
    let ph = w.blocks.get(&parent)?.header;
    let height = w.refm.get(&parent).height + 1;
    let time = if w.cfg.time_dips && height % 3 == 0 { ph.time - 1 } else { ph.time + 600 };
    Some(match w.net() {
        Network::Regtest => factory::regtest_block(&ph, time, txs),
        _ => factory::unmined_block(&ph, time, 0x1d00ffff, txs),
    })
}

/// Result of applying an event.
#[derive(Clone, Debug, PartialEq, Eq, Serialize)]
pub enum Applied {
    BlockAccepted,
    BlockRejected,
    NotApplicable,
    Ingest(Ingested),
    Upgraded,
    ConfigSet,
    HeadersAnnounced,
    Trap(String),
}

pub fn upgrade_cfg(w: &World, cfg: u8) -> Option<SetConfigRequest> {
    match cfg {
        0 => None,
        1 => Some(SetConfigRequest::default()),
        2 => Some(SetConfigRequest {
            stability_threshold: Some(w.threshold() as u128 + 1),
            ..Default::default()
        }),
        _ => Some(SetConfigRequest {
            lazily_evaluate_fee_percentiles: Some(ic_btc_interface::Flag::Enabled),
            ..Default::default()
        }),
    }
}

pub fn apply_ev(w: &mut World, ev: &Ev) -> Applied {
    match ev {
        Ev::Block { parent, diff, body } => {
            let Some(block) = build_block(w, *parent, *body) else {
                return Applied::NotApplicable;
            };
            let d = Some(*diff as u128);
            let r = match w.net() {
                Network::Regtest => w.deliver_direct(&block, d),
                _ => w.deliver_push(&block, d),
            };
            match r {
                Ok(true) => Applied::BlockAccepted,
                Ok(false) => Applied::BlockRejected,
                Err(p) => Applied::Trap(p),
            }
        }
        Ev::Ingest { budget } => {
            let b = if *budget == 0 { None } else { Some(*budget as u64) };
            match w.ingest(b) {
                Ok(i) => Applied::Ingest(i),
                Err(p) => Applied::Trap(p),
            }
        }
        Ev::Upgrade { cfg } => {
            let c = upgrade_cfg(w, *cfg);
            match w.upgrade(c) {
                Ok(()) => Applied::Upgraded,
                Err(p) => Applied::Trap(p),
            }
        }
        Ev::SetThreshold(t) => match w.set_threshold(*t) {
            Ok(()) => Applied::ConfigSet,
            Err(p) => Applied::Trap(p),
        },
        Ev::AnnBlock { idx } => {
            let Some(a) = w.announced.get(*idx) else { return Applied::NotApplicable };
            let Some(b) = a.block.clone() else { return Applied::NotApplicable };
            match w.deliver_direct(&b, Some(1)) {
                Ok(true) => Applied::BlockAccepted,
                Ok(false) => Applied::BlockRejected,
                Err(p) => Applied::Trap(p),
            }
        }
        Ev::Hdr { on, len } => {
            let Some(first) = build_block(w, *on, BODY_CB) else {
                return Applied::NotApplicable;
            };
            let mut headers = vec![first.header];
            for k in 1..*len {
                let prev = *headers.last().unwrap();
                let txs = vec![coinbase_tx(7000 + k as u64 + 100 * w.ids.len() as u64, vec![(1, w.book.script(G))])];
                let mut h = factory::make_header(prev.block_hash(), prev.time + 600, REGTEST_BITS, &txs);
                if w.net() == Network::Regtest {
                    factory::mine(&mut h);
                }
                headers.push(h);
            }
            let blobs: Vec<ic_btc_canister::types::BlockHeaderBlob> = headers
                .iter()
                .map(|h| crate::world::header_blob(factory::header_bytes(h)))
                .collect();
            let r = crate::util::guarded(|| {
                ic_btc_canister::with_state_mut(|s| {
                    ic_btc_canister::state::insert_next_block_headers(s, &blobs)
                })
            });
            if let Err(p) = r {
                return Applied::Trap(p);
            }
            let base_h = w.refm.get(&w.ids[*on]).height;
            for (k, h) in headers.iter().enumerate() {
                w.announced.push(crate::world::Announced {
                    hash: factory::hash_of(h),
                    prev: {
                        use bitcoin::hashes::Hash;
                        h.prev_blockhash.to_byte_array()
                    },
                    height: base_h + 1 + k as u32,
                    header: *h,
                    block: if k == 0 { Some(first.clone()) } else { None },
                });
            }
            Applied::HeadersAnnounced
        }
    }
}

/// Ids (in `w.ids`) of the blocks currently in the implementation's tree.
pub fn live_ids(w: &World) -> Vec<usize> {
    let tree: std::collections::HashSet<H32> = w.tree_hashes().into_iter().collect();
    (0..w.ids.len()).filter(|i| tree.contains(&w.ids[*i])).collect()
}

/// Common enabledness of the TREE/LEDGER profiles.
pub struct Alphabet {
    pub max_blocks: usize,
    pub diffs: Vec<u8>,
    /// bodies offered (BODY_CB first); histories may use at most `max_special` non-default ones
    pub bodies: Vec<u8>,
    pub max_special: usize,
    /// ingestion budgets offered (0 = unlimited)
    pub budgets: Vec<u32>,
    pub upgrades: Vec<u8>,
    pub max_upgrades: usize,
    pub thresholds: Vec<u32>,
    pub max_threshold_changes: usize,
    /// offer an ingestion opportunity even when nothing can be ingested (a no-op)
    pub noop_ingest: bool,
    /// lengths of announced-header chains offered (on every live block)
    pub hdr_lens: Vec<u8>,
    pub max_hdr_events: usize,
    /// offer the arrival of the blocks of announced headers
    pub announced_blocks: bool,
}

impl Alphabet {
    pub fn tree(max_blocks: usize, diffs: &[u8]) -> Self {
        Alphabet {
            max_blocks,
            diffs: diffs.to_vec(),
            bodies: vec![BODY_CB],
            max_special: 0,
            budgets: vec![0],
            upgrades: vec![],
            max_upgrades: 0,
            thresholds: vec![],
            max_threshold_changes: 0,
            noop_ingest: false,
            hdr_lens: vec![],
            max_hdr_events: 0,
            announced_blocks: false,
        }
    }

    /// `last` is the outcome of the last event of `hist`.
    pub fn enabled(&self, w: &World, hist: &[Ev], last: Option<&Applied>) -> Vec<Ev> {
        let mut evs = vec![];
        let nblocks = hist.iter().filter(|e| matches!(e, Ev::Block { .. } | Ev::AnnBlock { .. })).count();
        let specials = hist
            .iter()
            .filter(|e| matches!(e, Ev::Block { body, .. } if *body != BODY_CB))
            .count();
        let ingesting = w.is_ingesting();
        let last_was_full_ingest = matches!(
            last,
            Some(Applied::Ingest(Ingested::DoneWork)) | Some(Applied::Ingest(Ingested::Nothing))
        );
        // While a block is partially ingested only ingestion (and upgrades / config) can
        // run: the heartbeat returns before fetching or processing anything.
        if !ingesting && nblocks < self.max_blocks {
            for p in live_ids(w) {
                for d in &self.diffs {
                    for b in &self.bodies {
                        if *b != BODY_CB && specials >= self.max_special {
                            continue;
                        }
                        let parent = w.ids[p];
                        if *b != BODY_CB && build_body(w, &parent, *b, w.ids.len()).is_none() {
                            continue;
                        }
                        evs.push(Ev::Block {
                            parent: p,
                            diff: *d,
                            body: *b,
                        });
                    }
                }
            }
        }
        if ingesting {
            for b in &self.budgets {
                evs.push(Ev::Ingest { budget: *b });
            }
        } else if !last_was_full_ingest && !hist.is_empty() {
            let would_ingest = ic_btc_canister::with_state(|s| {
                ic_btc_canister::unstable_blocks::peek(&s.unstable_blocks).is_some()
            });
            if would_ingest {
                for b in &self.budgets {
                    evs.push(Ev::Ingest { budget: *b });
                }
            } else if self.noop_ingest {
                // nothing can be ingested: the budget is irrelevant
                evs.push(Ev::Ingest { budget: 0 });
            }
        }
        let ups = hist.iter().filter(|e| matches!(e, Ev::Upgrade { .. })).count();
        if ups < self.max_upgrades && !matches!(hist.last(), Some(Ev::Upgrade { .. })) && !hist.is_empty() {
            for c in &self.upgrades {
                evs.push(Ev::Upgrade { cfg: *c });
            }
        }
        let tcs = hist.iter().filter(|e| matches!(e, Ev::SetThreshold(_))).count();
        if tcs < self.max_threshold_changes && !hist.is_empty() {
            let cur = w.threshold();
            for t in &self.thresholds {
                if *t != cur {
                    evs.push(Ev::SetThreshold(*t));
                }
            }
        }
        if self.announced_blocks && !ingesting && nblocks < self.max_blocks {
            let tree: std::collections::HashSet<H32> = w.tree_hashes().into_iter().collect();
            for (idx, a) in w.announced.iter().enumerate() {
                if a.block.is_some() && !w.refm.has(&a.hash) && tree.contains(&a.prev) {
                    evs.push(Ev::AnnBlock { idx });
                }
            }
        }
        let hdrs = hist.iter().filter(|e| matches!(e, Ev::Hdr { .. })).count();
        if !ingesting && hdrs < self.max_hdr_events {
            for p in live_ids(w) {
                for l in &self.hdr_lens {
                    evs.push(Ev::Hdr { on: p, len: *l });
                }
            }
        }
        // A history must not end with the block budget used up and ingestion pending
        // forever: when no block can be added any more, ingestion events remain enabled
        // above until nothing is left to ingest.
        evs
    }
}

// ------------------------------------------------------------------ generic chain model

use crate::engine::{Model, Out};
use crate::world::WorldCfg;
use serde_json::{json, Value};

/// Cheap structural snapshot of the implementation, taken before every transition.
#[derive(Clone, Debug)]
pub struct Snap {
    pub anchor: H32,
    pub stable_height: u32,
    pub tree: Vec<H32>,
    pub threshold: u32,
    pub ingesting: bool,
}

pub fn snap(w: &World) -> Snap {
    let tree = w.tree_hashes();
    Snap {
        anchor: tree[0],
        stable_height: w.stable_height(),
        tree,
        threshold: w.threshold(),
        ingesting: w.is_ingesting(),
    }
}

pub struct Ctx<M> {
    pub w: World,
    pub last: Option<Applied>,
    pub mon: M,
    /// set when a transition trapped: the path ends
    pub dead: bool,
    /// the stability threshold was raised while a block was partially ingested
    pub threshold_raised_mid_ingestion: bool,
}

pub trait Oracle: Sync {
    type Mon: Default;
    /// Called after every transition (also during replays, with `check == false`, so that
    /// monitors stay in step; verdicts only with `check`).
    fn on_transition(
        &self,
        _w: &mut World,
        _mon: &mut Self::Mon,
        _ev: &Ev,
        _pre: &Snap,
        _applied: &Applied,
        _check: bool,
        _out: &mut Out,
    ) {
    }
    /// State-changing calls the oracle wants to have happened in every state (e.g. the fee
    /// endpoint, which fills caches): run at the initial state and after every transition,
    /// during replays too, so that the probes in `on_state` find a state they do not change
    /// (verified by the engine's probe-purity self-check).
    fn settle(&self, _w: &mut World) {}
    /// Called before every transition (also during replays).
    fn before(&self, _w: &mut World, _mon: &mut Self::Mon, _ev: &Ev, _check: bool) {}
    fn on_state(&self, w: &mut World, mon: &mut Self::Mon, hist: &[Ev], out: &mut Out);
    /// Digest of the monitor state that influences verdicts (part of the dedup key).
    fn mon_digest(&self, _mon: &Self::Mon) -> u64 {
        0
    }
    /// Whether states may be merged on equal complete fingerprints.
    fn dedup(&self) -> bool {
        true
    }
    /// Oracle parameters, recorded for replay.
    fn params(&self) -> Value {
        Value::Null
    }
    /// Whether a trap in this kind of event is itself a violation of the property.
    fn trap_is_violation(&self) -> bool {
        true
    }
    fn prop(&self) -> &'static str;
}

pub struct ChainModel<O: Oracle> {
    pub cfg: WorldCfg,
    pub alpha: Alphabet,
    pub oracle: O,
}

impl<O: Oracle> Model for ChainModel<O> {
    type S = Ctx<O::Mon>;
    type Ev = Ev;

    fn init(&self) -> Self::S {
        let mut c = Ctx {
            w: World::new(self.cfg.clone()),
            last: None,
            mon: O::Mon::default(),
            dead: false,
            threshold_raised_mid_ingestion: false,
        };
        self.oracle.settle(&mut c.w);
        c
    }

    fn enabled(&self, s: &Self::S, hist: &[Ev]) -> Vec<Ev> {
        if s.dead {
            return vec![];
        }
        self.alpha.enabled(&s.w, hist, s.last.as_ref())
    }

    fn apply(&self, s: &mut Self::S, ev: &Ev, check: bool, out: &mut Out) -> bool {
        let pre = snap(&s.w);
        self.oracle.before(&mut s.w, &mut s.mon, ev, check);
        let applied = apply_ev(&mut s.w, ev);
        if pre.ingesting && s.w.threshold() > pre.threshold {
            s.threshold_raised_mid_ingestion = true;
        }
        if let Applied::Trap(msg) = &applied {
            s.dead = true;
            if check && self.oracle.trap_is_violation() {
                // signature of finding F9: the anchor finished ingesting but no child is
                // stable any more because the threshold was raised mid-ingestion, so the
                // pop at the end of ingestion unwraps None
                let f9 = matches!(ev, Ev::Ingest { .. })
                    && s.threshold_raised_mid_ingestion
                    && msg.contains("Option::unwrap()")
                    && msg.contains("canister/src/state.rs");
                out.violation(
                    "trap",
                    if f9 { Some("F9") } else { None },
                    json!({"event": ev, "panic": msg, "note": "block insertion, ingestion, upgrade or set_config trapped"}),
                );
            }
            s.last = Some(applied);
            return false;
        }
        if check {
            match &applied {
                Applied::BlockAccepted => out.count("blocks_accepted"),
                Applied::BlockRejected => out.count("blocks_rejected"),
                Applied::Ingest(Ingested::Paused) => out.count("ingest_paused"),
                Applied::Ingest(Ingested::DoneWork) => out.count("ingest_done_work"),
                Applied::Upgraded => out.count("upgrades"),
                _ => {}
            }
        }
        self.oracle
            .on_transition(&mut s.w, &mut s.mon, ev, &pre, &applied, check, out);
        self.oracle.settle(&mut s.w);
        s.last = Some(applied);
        true
    }

    fn check(&self, s: &mut Self::S, hist: &[Ev], out: &mut Out) {
        self.oracle.on_state(&mut s.w, &mut s.mon, hist, out);
    }

    fn key(&self, s: &Self::S, hist: &[Ev]) -> Option<u128> {
        if !self.oracle.dedup() {
            return None;
        }
        // complete logical state + budgets used so far + monitor digest + last outcome
        // (enabledness of Ingest depends on it)
        let mut b = crate::world::full_fingerprint().to_le_bytes().to_vec();
        let nblocks = hist.iter().filter(|e| matches!(e, Ev::Block { .. } | Ev::AnnBlock { .. })).count() as u8;
        let specials = hist
            .iter()
            .filter(|e| matches!(e, Ev::Block { body, .. } if *body != BODY_CB))
            .count() as u8;
        let ups = hist.iter().filter(|e| matches!(e, Ev::Upgrade { .. })).count() as u8;
        let tcs = hist.iter().filter(|e| matches!(e, Ev::SetThreshold(_))).count() as u8
            + 16 * hist.iter().filter(|e| matches!(e, Ev::Hdr { .. })).count() as u8;
        let last_ingest_complete = matches!(
            s.last,
            Some(Applied::Ingest(Ingested::DoneWork)) | Some(Applied::Ingest(Ingested::Nothing))
        ) as u8;
        let last_upgrade = matches!(hist.last(), Some(Ev::Upgrade { .. })) as u8;
        // the next block's id determines its coinbase salt and value; block#1 determines T
        let next_id = s.w.ids.len() as u8;
        b.extend([nblocks, specials, ups, tcs, last_ingest_complete, last_upgrade, next_id]);
        if s.w.ids.len() > 1 {
            b.extend(s.w.ids[1]);
        }
        b.extend(self.oracle.mon_digest(&s.mon).to_le_bytes());
        for a in &s.w.announced {
            b.extend(a.hash);
        }
        let h = crate::util::sha256(&b);
        Some(u128::from_le_bytes(h[..16].try_into().unwrap()))
    }

    fn context(&self) -> Value {
        json!({
            "model": "chain",
            "net": self.cfg.net.to_string(),
            "theta": self.cfg.threshold,
            "lazy_fees": self.cfg.lazy_fees,
            "api_access": self.cfg.api_access,
            "disable_if_not_synced": self.cfg.disable_if_not_synced,
            "syncing": self.cfg.syncing,
            "exotic": self.cfg.exotic,
            "fees_all_zero": self.cfg.fees == Some(ic_btc_interface::Fees::default()),
            "oracle": self.oracle.params(),
        })
    }

    fn sample(&self, s: &mut Self::S, hist: &[Ev]) -> Value {
        let info = s.w.info().ok();
        json!({
            "history": hist,
            "network": s.w.net().to_string(),
            "threshold": s.w.threshold(),
            "final_tip_height": info.as_ref().map(|i| i.height),
            "final_tip": info.as_ref().map(|i| crate::util::short(&i.block_hash)),
            "stable_height": s.w.stable_height(),
            "blocks_in_tree": s.w.tree_hashes().len(),
        })
    }
}

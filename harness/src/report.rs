//! Verdicts, known-finding classification, replay files and evidence files.
use crate::engine::{Explored, Out, Violation};
use serde_json::{json, Map, Value};
use std::collections::BTreeMap;
use std::path::PathBuf;
use std::time::Instant;

pub const VERIF: &str = "/verif";

/// Where evidence and replay files are written (the committed KNOWN_FINDINGS.json is always
/// read from /verif). Overridable so that a scratch mirror of the harness, used to try
/// seeded changes against a scratch copy of the repository, does not touch /verif/evidence.
pub fn out_home() -> PathBuf {
    PathBuf::from(std::env::var("VERIF_OUT").unwrap_or_else(|_| VERIF.to_string()))
}

pub struct Report {
    pub prop: String,
    pub tier: String,
    pub level: &'static str,
    pub out: Out,
    pub parts: Vec<Value>,
    pub cap_hit: bool,
    pub exhaustive: bool,
    pub assumptions: Vec<String>,
    pub bounds: Value,
    pub floors: Vec<(String, u64)>,
    pub extra: Map<String, Value>,
    pub rule: String,
    pub t0: Instant,
    /// E3-style counts (exploration level)
    pub evaluations: u64,
}

impl Report {
    pub fn new(prop: &str, tier: &str, level: &'static str) -> Self {
        Report {
            prop: prop.to_string(),
            tier: tier.to_string(),
            level,
            out: Out::default(),
            parts: vec![],
            cap_hit: false,
            exhaustive: true,
            assumptions: vec![],
            bounds: Value::Null,
            floors: vec![],
            extra: Map::new(),
            rule: String::new(),
            t0: Instant::now(),
            evaluations: 0,
        }
    }

    pub fn absorb(&mut self, name: &str, e: Explored, bounds: Value) {
        self.parts.push(json!({
            "part": name,
            "bounds": bounds,
            "states": e.out.states,
            "transitions": e.out.transitions,
            "complete_histories": e.out.leaves,
            "wall_s": (e.wall * 100.0).round() / 100.0,
            "cap_hit": e.cap_hit,
        }));
        self.cap_hit |= e.cap_hit;
        self.out.merge(e.out);
    }

    pub fn floor(&mut self, counter: &str, min: u64) {
        self.floors.push((counter.to_string(), min));
    }

    pub fn assume(&mut self, s: &str) {
        self.assumptions.push(s.to_string());
    }

    /// Writes replay files and the evidence file, prints verdict lines, returns exit code.
    pub fn finish(mut self) -> i32 {
        if crate::engine::REPLAY_TARGET.get().is_some() {
            return self.finish_replay();
        }
        let known = load_known_findings();
        let mut real: Vec<&Violation> = vec![];
        let mut known_hits: BTreeMap<String, (u64, String)> = BTreeMap::new();
        let mut machinery = false;
        // Classification by kept violations; counts come from violation_counts.
        for ((kind, finding), n) in self.out.violation_counts.iter() {
            if kind.starts_with("machinery:") {
                machinery = true;
                continue;
            }
            if let Some(f) = finding {
                if let Some(k) = known.iter().find(|k| {
                    k.id == *f && k.status == "known" && k.properties.iter().any(|p| *p == self.prop)
                }) {
                    let e = known_hits.entry(f.clone()).or_insert((0, k.what_fails.clone()));
                    e.0 += n;
                    continue;
                }
            }
        }
        for v in self.out.violations.iter() {
            if v.kind.starts_with("machinery:") {
                continue;
            }
            let is_known = v
                .finding
                .as_ref()
                .map(|f| known_hits.contains_key(f))
                .unwrap_or(false);
            if !is_known {
                real.push(v);
            }
        }
        let n_real: u64 = self
            .out
            .violation_counts
            .iter()
            .filter(|((k, f), _)| {
                !k.starts_with("machinery:")
                    && !f.as_ref().map(|f| known_hits.contains_key(f)).unwrap_or(false)
            })
            .map(|(_, n)| *n)
            .sum();

        // replay files
        let dir = out_home().join("replays").join(&self.prop);
        let _ = std::fs::create_dir_all(&dir);
        // drop stale replay files of this tier
        if let Ok(rd) = std::fs::read_dir(&dir) {
            for e in rd.flatten() {
                if e.file_name().to_string_lossy().starts_with(&format!("{}-", self.tier)) {
                    let _ = std::fs::remove_file(e.path());
                }
            }
        }
        let mut lines = vec![];
        for (i, v) in real.iter().enumerate() {
            let path = dir.join(format!("{}-{}.json", self.tier, i));
            let body = json!({
                "property": self.prop,
                "tier": self.tier,
                "context": v.context,
                "kind": v.kind,
                "finding_signature_matched": v.finding,
                "history": v.history,
                "detail": v.detail,
            });
            let _ = std::fs::write(&path, serde_json::to_string_pretty(&body).unwrap());
            lines.push(format!(
                "VIOLATION property={} replay={} kind={}",
                self.prop,
                path.display(),
                v.kind
            ));
        }
        for (f, (n, what)) in known_hits.iter() {
            crate::util::say(&format!(
                "KNOWN-FINDING: property={} finding={} occurrences={} {}",
                self.prop, f, n, what
            ));
        }
        for l in &lines {
            crate::util::say(l);
        }

        // vacuity floors
        let mut vacuous = vec![];
        for (c, min) in &self.floors {
            let v = self.out.counters.get(c).copied().unwrap_or(0);
            if v < *min {
                vacuous.push(format!("{}={} < {}", c, v, min));
            }
        }

        let wall = self.t0.elapsed().as_secs_f64();
        let exhaustive = self.exhaustive && !self.cap_hit;
        let counters: Map<String, Value> = self
            .out
            .counters
            .iter()
            .map(|(k, v)| (k.clone(), json!(v)))
            .collect();
        let mut coverage = Map::new();
        if self.level == "model_checking" {
            coverage.insert("states".into(), json!(self.out.states.max(1)));
            coverage.insert("transitions".into(), json!(self.out.transitions.max(1)));
            // every explored path ran on the real code: complete histories plus the paths
            // that ended by merging into an already expanded state
            let merged = self.out.counters.get("engine_merged_into_visited_state").copied().unwrap_or(0);
            coverage.insert("traces_validated_against_impl".into(), json!(self.out.leaves + merged));
            coverage.insert("complete_histories".into(), json!(self.out.leaves));
            coverage.insert(
                "explanation".into(),
                json!("the explored transition system is the implementation itself: every transition calls the real entry point; the reference model runs in lock-step as oracle, so every explored history is a trace validated against the implementation"),
            );
        }
        let evals = if self.evaluations > 0 {
            self.evaluations
        } else {
            self.out.states
        };
        coverage.insert("evaluations".into(), json!(evals.max(1)));
        coverage.insert(
            "distinct_nontrivial".into(),
            json!(self.out.distinct.len().max(self.out.outcomes.len())),
        );
        coverage.insert("distinct_states".into(), json!(self.out.distinct.len()));
        coverage.insert("distinct_outcomes".into(), json!(self.out.outcomes.len()));
        coverage.insert("rule".into(), json!(self.rule));
        let samples: Vec<Value> = if self.out.samples.is_empty() {
            vec![json!("no complete history recorded")]
        } else {
            self.out.samples.clone()
        };
        coverage.insert("samples".into(), json!(samples));
        coverage.insert("exhaustive".into(), json!(exhaustive));
        coverage.insert("bounds".into(), self.bounds.clone());
        coverage.insert("parts".into(), json!(self.parts));
        coverage.insert("non_vacuity_counters".into(), Value::Object(counters));
        coverage.insert("cap_hit".into(), json!(self.cap_hit));
        coverage.insert(
            "known_findings_hit".into(),
            json!(known_hits
                .iter()
                .map(|(f, (n, w))| json!({"finding": f, "occurrences": n, "what": w}))
                .collect::<Vec<_>>()),
        );
        if !vacuous.is_empty() {
            coverage.insert("vacuous".into(), json!(vacuous));
        }
        for (k, v) in self.extra.iter() {
            coverage.insert(k.clone(), v.clone());
        }
        let seed: i64 = std::env::var("VERIF_SEED")
            .ok()
            .and_then(|s| s.parse().ok())
            .unwrap_or(0);
        self.assumptions
            .push("seed is recorded but unused: the deciding step enumerates, it never samples".into());
        let ev = json!({
            "property_id": self.prop,
            "tier": self.tier,
            "seed": seed,
            "level": self.level,
            "coverage": Value::Object(coverage),
            "assumptions": self.assumptions,
            "wall_s": (wall * 100.0).round() / 100.0,
            "violations": n_real,
        });
        let evdir = out_home().join("evidence");
        let _ = std::fs::create_dir_all(&evdir);
        std::fs::write(
            evdir.join(format!("{}.json", self.prop)),
            serde_json::to_string_pretty(&ev).unwrap(),
        )
        .expect("evidence file written");

        crate::util::say(&format!(
            "{} {}: states={} transitions={} histories={} distinct_states={} outcomes={} violations={} known={} wall={:.1}s exhaustive={}",
            self.prop,
            self.tier,
            self.out.states,
            self.out.transitions,
            self.out.leaves,
            self.out.distinct.len(),
            self.out.outcomes.len(),
            n_real,
            known_hits.values().map(|v| v.0).sum::<u64>(),
            wall,
            exhaustive
        ));
        if machinery {
            for v in self.out.violations.iter().filter(|v| v.kind.starts_with("machinery:")) {
                eprintln!("MACHINERY ERROR {}: {} history={}", v.kind, v.detail, v.history);
            }
            // a violation with a replay file stands on its own (it can be replayed without the
            // explorer); a machinery error alone is never a verdict
            if n_real > 0 {
                return 1;
            }
            return 3;
        }
        if n_real > 0 {
            return 1;
        }
        if self.cap_hit {
            eprintln!("MACHINERY ERROR: time cap hit before the declared bound was completed");
            return 3;
        }
        if !vacuous.is_empty() {
            eprintln!("VACUOUS RUN: {}", vacuous.join(", "));
            return 2;
        }
        0
    }
}

impl Report {
    /// Replay mode: report whether the recorded violation occurs again; writes nothing.
    fn finish_replay(self) -> i32 {
        let n = self.out.violations.len();
        for v in &self.out.violations {
            crate::util::say(&format!(
                "REPLAY property={} kind={} finding_signature={:?} detail={}",
                self.prop, v.kind, v.finding, v.detail
            ));
        }
        crate::util::say(&format!(
            "REPLAY property={} reproduced={} ({} violation(s) at the recorded history)",
            self.prop,
            n > 0,
            n
        ));
        if n > 0 {
            1
        } else {
            0
        }
    }
}

#[derive(Clone, Debug)]
pub struct KnownFinding {
    pub id: String,
    pub properties: Vec<String>,
    pub status: String,
    pub what_fails: String,
}

pub fn load_known_findings() -> Vec<KnownFinding> {
    let path = PathBuf::from(VERIF).join("KNOWN_FINDINGS.json");
    let Ok(text) = std::fs::read_to_string(&path) else {
        return vec![];
    };
    let v: Value = serde_json::from_str(&text).expect("KNOWN_FINDINGS.json parses");
    v["findings"]
        .as_array()
        .map(|a| {
            a.iter()
                .map(|e| KnownFinding {
                    id: e["id"].as_str().unwrap_or("").to_string(),
                    properties: e["properties"]
                        .as_array()
                        .map(|p| p.iter().filter_map(|x| x.as_str().map(|s| s.to_string())).collect())
                        .unwrap_or_default(),
                    status: e["status"].as_str().unwrap_or("").to_string(),
                    what_fails: e["what_fails"].as_str().unwrap_or("").to_string(),
                })
                .collect()
        })
        .unwrap_or_default()
}

//! E2 — message-schedule exploration of the block-fetching protocol: the harness is the
//! executor; heartbeats park at the (cfg-guarded) yield point before `get_successors`.
use crate::engine::{Model, Out};
use crate::factory::{self, *};
use crate::observe::{self, ObsOpts};
use crate::refmodel::H32;
use crate::util::{guarded, short};
use crate::world::{header_blob, World, WorldCfg};
use bitcoin::hashes::Hash;
use ic_btc_canister::runtime::{self, verif_hooks as rt, GetSuccessorsReply};
use ic_btc_canister::types::{
    GetSuccessorsCompleteResponse, GetSuccessorsPartialResponse, GetSuccessorsRequest,
    GetSuccessorsResponse,
};
use ic_btc_canister::with_state;
use serde::Serialize;
use serde_json::{json, Value};
use std::future::Future;
use std::pin::Pin;
use std::task::{Context, Poll, Waker};

#[derive(Clone, Debug, Serialize, PartialEq, Eq)]
pub enum Reply {
    Normal,
    Reject,
    Empty,
}

#[derive(Clone, Debug, Serialize, PartialEq, Eq)]
pub enum SEv {
    /// Start a heartbeat and poll it until it finishes or parks.
    Hb,
    /// Deliver a reply to the `which`-th parked heartbeat.
    Reply { which: usize, kind: Reply },
    Upgrade,
    /// set_config(syncing = disabled / enabled) by the controller
    SetSyncing(bool),
    /// set_config(disable_api_if_not_fully_synced = enabled) by the controller
    SetGate,
}

pub struct ParkedHb {
    pub fut: Pin<Box<dyn Future<Output = ()>>>,
    pub request: GetSuccessorsRequest,
}

/// The block source: a fixed pool; one block is "large" and travels in 1+p pages.
#[derive(Clone)]
pub struct Pool {
    pub blocks: Vec<bitcoin::Block>,
    pub large: Option<usize>,
    pub follow_ups: usize,
    pub max_blocks_per_reply: usize,
    /// at most this many announced headers per reply (as the real adapter caps them)
    pub max_next: usize,
    /// make the second page empty (two split points coincide)
    pub empty_page: bool,
}

impl Pool {
    /// G - P1 - P2 - P3 and a fork F on P1; P2 is the large block.
    pub fn standard(net: ic_btc_interface::Network, follow_ups: usize) -> Pool {
        let book = Book::new(net);
        let g = factory::genesis(net);
        let mk = |prev: &bitcoin::block::Header, salt: u64, outs: Vec<(u64, usize)>| {
            let txs = vec![coinbase_tx(salt, outs.into_iter().map(|(v, a)| (v, book.script(a))).collect())];
            factory::regtest_block(prev, prev.time + 600, txs)
        };
        let p1 = mk(&g.header, 1, vec![(10, A)]);
        let p2 = mk(&p1.header, 2, vec![(20, A), (21, B), (22, C), (23, D)]);
        let f = mk(&p1.header, 3, vec![(30, F)]);
        let p3 = mk(&p2.header, 4, vec![(40, A)]);
        Pool {
            blocks: vec![p1, p2, f, p3],
            large: if follow_ups > 0 { Some(1) } else { None },
            follow_ups,
            max_blocks_per_reply: 2,
            max_next: 100,
            empty_page: false,
        }
    }

    /// Two competing branches G - A1 - A2 and G - B1 - B2 - B3; B2 is the large block; one
    /// block per reply.
    pub fn wide(net: ic_btc_interface::Network, follow_ups: usize) -> Pool {
        let book = Book::new(net);
        let g = factory::genesis(net);
        let mk = |prev: &bitcoin::block::Header, salt: u64, outs: Vec<(u64, usize)>| {
            let txs = vec![coinbase_tx(salt, outs.into_iter().map(|(v, a)| (v, book.script(a))).collect())];
            factory::regtest_block(prev, prev.time + 600, txs)
        };
        let a1 = mk(&g.header, 11, vec![(10, A)]);
        let b1 = mk(&g.header, 12, vec![(20, B)]);
        let a2 = mk(&a1.header, 13, vec![(30, A), (31, C)]);
        let b2 = mk(&b1.header, 14, vec![(40, B), (41, D), (42, E)]);
        let b3 = mk(&b2.header, 15, vec![(50, B)]);
        Pool {
            blocks: vec![a1, b1, a2, b2, b3],
            large: if follow_ups > 0 { Some(3) } else { None },
            follow_ups,
            max_blocks_per_reply: 1,
            max_next: 100,
            empty_page: false,
        }
    }

    /// One chain G - T1 - ... - Tn, T2 is the large block, one block and at most three
    /// announced headers per reply: every reply announces a header that no earlier reply
    /// announced, and the canister is more than two blocks behind them for a while.
    pub fn tall(net: ic_btc_interface::Network, follow_ups: usize, n: usize) -> Pool {
        let book = Book::new(net);
        let g = factory::genesis(net);
        let mut blocks: Vec<bitcoin::Block> = vec![];
        for i in 0..n {
            let prev = blocks.last().map(|b| b.header).unwrap_or(g.header);
            let outs: Vec<(u64, usize)> = if i == 1 { vec![(20, A), (21, B), (22, C), (23, D)] } else { vec![(10 + i as u64, A)] };
            let txs = vec![coinbase_tx(31 + i as u64, outs.into_iter().map(|(v, a)| (v, book.script(a))).collect())];
            blocks.push(factory::regtest_block(&prev, prev.time + 600, txs));
        }
        Pool {
            blocks,
            large: if follow_ups > 0 { Some(1) } else { None },
            follow_ups,
            max_blocks_per_reply: 1,
            max_next: 3,
            empty_page: false,
        }
    }

    /// Height of pool block `i` (genesis = 0).
    pub fn height(&self, i: usize) -> u32 {
        let p = self.blocks[i].header.prev_blockhash.to_byte_array();
        match self.blocks.iter().position(|b| b.block_hash().to_byte_array() == p) {
            Some(j) => self.height(j) + 1,
            None => 1,
        }
    }

    pub fn hash(&self, i: usize) -> H32 {
        self.blocks[i].block_hash().to_byte_array()
    }

    /// Pages of the large block: 1 + follow_ups chunks (cut points spread evenly; the
    /// first and last pages may be short, one page may be empty when p is large).
    pub fn pages(&self) -> Vec<Vec<u8>> {
        let i = self.large.expect("large block");
        let bytes = factory::block_bytes(&self.blocks[i]);
        let n = self.follow_ups + 1;
        let mut pages = vec![];
        let mut start = 0usize;
        for k in 0..n {
            let mut end = if k + 1 == n { bytes.len() } else { (bytes.len() * (k + 1)) / n };
            if self.empty_page && k == 1 && n >= 3 {
                end = start; // an empty follow-up page
            }
            pages.push(bytes[start..end].to_vec());
            start = end;
        }
        pages
    }

    /// Pool blocks that descend from `known` and are not in it, parents first.
    pub fn candidates(&self, known: &[H32]) -> Vec<usize> {
        let mut known: Vec<H32> = known.to_vec();
        let mut out = vec![];
        let mut progress = true;
        while progress {
            progress = false;
            for (i, b) in self.blocks.iter().enumerate() {
                let h = b.block_hash().to_byte_array();
                let p = b.header.prev_blockhash.to_byte_array();
                if !known.contains(&h) && known.contains(&p) {
                    known.push(h);
                    out.push(i);
                    progress = true;
                }
            }
        }
        out
    }
}

#[derive(Clone, Default)]
pub struct SourceState {
    /// pages of the partial response being served, if any
    pub pages: Option<Vec<Vec<u8>>>,
    /// pool indices announced with the partial response being served
    pub partial_next: Vec<usize>,
    /// pool indices announced with the response the canister holds for processing (source side)
    pub pending_next: Vec<usize>,
}

pub struct SCtx {
    pub w: World,
    pub parked: Vec<ParkedHb>,
    pub src: SourceState,
    pub deviations: usize,
    pub dead: bool,
    /// protocol monitor: the follow-up index that must be requested next
    pub expect_follow_up: Option<u8>,
    /// a reject or an upgrade happened: the next request must be an initial one
    pub expect_initial: bool,
    pub last_was_upgrade: bool,
    pub syncing: bool,
    /// reference: pool blocks announced in replies the canister has processed
    pub announced_ref: std::collections::BTreeSet<usize>,
    /// the sync flag is currently on
    pub gate_on: bool,
}

pub struct SchedModel {
    pub net: ic_btc_interface::Network,
    pub theta: u32,
    pub pool: Pool,
    pub max_deviations: usize,
    pub max_depth: usize,
    /// heartbeat ingestion budget (None = unlimited)
    pub hb_budget: Option<u64>,
    pub prop: &'static str,
    /// check bounded liveness from every state
    pub liveness: bool,
    /// compare all probe answers across upgrades (C09)
    pub upgrade_transparency: bool,
    /// offer set_config(syncing) toggles as deviations
    pub syncing_toggles: bool,
    /// canister with disable_api_if_not_fully_synced: judge the sync gate in every state (C14)
    pub sync_gate: bool,
    /// start with the sync flag off and let the controller switch it on at any point
    pub gate_toggle: bool,
}

fn hash_of_bh(h: &ic_btc_types::BlockHash) -> H32 {
    h.as_bytes().try_into().unwrap()
}

impl SchedModel {
    fn answer(&self, s: &mut SCtx, req: &GetSuccessorsRequest, out: &mut Out, check: bool) -> GetSuccessorsResponse {
        match req {
            GetSuccessorsRequest::Initial(i) => {
                s.src.pages = None;
                let mut known = vec![hash_of_bh(&i.anchor)];
                known.extend(i.processed_block_hashes.iter().map(hash_of_bh));
                let cands = self.pool.candidates(&known);
                if let Some(first) = cands.first() {
                    if Some(*first) == self.pool.large {
                        let pages = self.pool.pages();
                        let first_page = pages[0].clone();
                        s.src.pages = Some(pages);
                        // the headers of the blocks that do not fit travel with the first page
                        s.src.partial_next = cands[1..].iter().copied().take(self.pool.max_next).collect();
                        return GetSuccessorsResponse::Partial(GetSuccessorsPartialResponse {
                            partial_block: first_page,
                            next: s
                                .src
                                .partial_next
                                .iter()
                                .map(|c| header_blob(factory::header_bytes(&self.pool.blocks[*c].header)))
                                .collect(),
                            remaining_follow_ups: self.pool.follow_ups as u8,
                        });
                    }
                }
                let mut blocks = vec![];
                let mut rest = vec![];
                for c in cands {
                    if blocks.len() < self.pool.max_blocks_per_reply && Some(c) != self.pool.large && rest.is_empty() {
                        blocks.push(factory::block_bytes(&self.pool.blocks[c]));
                    } else {
                        rest.push(c);
                    }
                }
                s.src.pending_next = rest.iter().copied().take(self.pool.max_next).collect();
                let next = rest
                    .iter()
                    .take(self.pool.max_next)
                    .map(|c| header_blob(factory::header_bytes(&self.pool.blocks[*c].header)))
                    .collect();
                GetSuccessorsResponse::Complete(GetSuccessorsCompleteResponse { blocks, next })
            }
            GetSuccessorsRequest::FollowUp(k) => match &s.src.pages {
                Some(pages) if (*k as usize) + 1 < pages.len() => {
                    if (*k as usize) + 2 == pages.len() {
                        s.src.pending_next = s.src.partial_next.clone();
                    }
                    GetSuccessorsResponse::FollowUp(pages[*k as usize + 1].clone())
                }
                _ => {
                    if check {
                        out.violation(
                            "follow-up-request-without-partial-response",
                            None,
                            json!({"index": k}),
                        );
                    }
                    s.dead = true;
                    GetSuccessorsResponse::Complete(GetSuccessorsCompleteResponse::default())
                }
            },
        }
    }

    /// Records blocks that entered the tree since the last look, parents first.
    fn absorb(&self, s: &mut SCtx, out: &mut Out, check: bool) {
        let tree = s.w.tree_hashes();
        let mut progress = true;
        while progress {
            progress = false;
            for h in &tree {
                if s.w.refm.has(h) {
                    continue;
                }
                if let Some(b) = self.pool.blocks.iter().find(|b| b.block_hash().to_byte_array() == *h) {
                    let p = b.header.prev_blockhash.to_byte_array();
                    if s.w.refm.has(&p) {
                        let d = ic_btc_types::Block::new(b.clone()).difficulty(self.net);
                        s.w.record(b, d);
                        progress = true;
                    }
                } else if check {
                    out.violation("unknown-block-in-tree", None, json!({"hash": short(h)}));
                }
            }
        }
    }

    fn check_request(&self, s: &mut SCtx, req: &GetSuccessorsRequest, out: &mut Out) {
        match req {
            GetSuccessorsRequest::FollowUp(k) => {
                if s.expect_follow_up != Some(*k) {
                    out.violation(
                        "follow-up-numbering",
                        None,
                        json!({"requested": k, "expected": s.expect_follow_up.map(|x| x.to_string()).unwrap_or("an initial request".into())}),
                    );
                } else {
                    out.count("follow_up_requests_in_sequence");
                }
            }
            GetSuccessorsRequest::Initial(i) => {
                if s.expect_follow_up.is_some() {
                    out.violation(
                        "initial-request-while-pages-outstanding",
                        None,
                        json!({"expected_follow_up": s.expect_follow_up}),
                    );
                }
                let tree = s.w.tree_hashes();
                let anchor_ok = hash_of_bh(&i.anchor) == tree[0];
                let rest: Vec<H32> = i.processed_block_hashes.iter().map(hash_of_bh).collect();
                let mut a = rest.clone();
                let mut b = tree[1..].to_vec();
                a.sort();
                b.sort();
                if !anchor_ok || a != b || i.network != self.net {
                    out.violation(
                        "initial-request-content",
                        None,
                        json!({"anchor_is_tree_root": anchor_ok, "processed": rest.len(), "tree_others": tree.len() - 1}),
                    );
                } else {
                    out.count("initial_requests_checked");
                    if s.expect_initial {
                        out.count("initial_requests_after_reject_or_upgrade");
                    }
                }
                s.expect_initial = false;
            }
        }
    }

    /// A stored complete response was processed by the last heartbeat: every header it
    /// announced is now pending, unless its block is in the tree or its height is stable.
    fn response_processed(&self, s: &mut SCtx, next: &[usize], out: &mut Out, check: bool) {
        let idx: Vec<usize> = next.to_vec();
        for i in &idx {
            s.announced_ref.insert(*i);
        }
        if !check {
            return;
        }
        let tree = s.w.tree_hashes();
        let pending: Vec<H32> = crate::props::c20::dump_unstable().map(|d| d.hdr_by_hash.keys().copied().collect()).unwrap_or_default();
        let sh = s.w.stable_height();
        for i in idx {
            let h = self.pool.hash(i);
            if pending.contains(&h) || tree.contains(&h) || self.pool.height(i) <= sh {
                out.count("announced_headers_accounted_for_after_processing");
            } else {
                out.violation(
                    "announced-header-lost",
                    None,
                    json!({"pool_block": i, "height": self.pool.height(i), "stable_height": sh}),
                );
            }
        }
    }

    /// Sync gate (C14): a data endpoint refuses iff the highest pending announced header of
    /// the reference is more than two above the best chain.
    fn gate_check(&self, s: &mut SCtx, out: &mut Out) {
        let tree = s.w.tree_hashes();
        let sh = s.w.stable_height();
        let max_announced = s
            .announced_ref
            .iter()
            .filter(|i| !tree.contains(&self.pool.hash(**i)) && self.pool.height(**i) > sh)
            .map(|i| self.pool.height(*i))
            .max();
        let Ok(info) = s.w.info() else { return };
        // with the flag off nothing is refused for being behind; the headers announced
        // meanwhile count from the moment it is switched on
        let must_refuse = s.gate_on && max_announced.map_or(false, |m| m > info.height + 2);
        let r = s.w.balance(s.w.book.text(0), None);
        let refused = matches!(&r, Err(p) if p.starts_with("Canister state is not fully synced"));
        let answered = matches!(&r, Ok(Ok(_)));
        if must_refuse && !refused {
            out.violation(
                "answered-but-must-refuse",
                None,
                json!({"endpoint": "get_balance", "max_announced_height": max_announced, "best_height": info.height, "got": format!("{:?}", r)}),
            );
        } else if !must_refuse && !answered {
            out.violation(
                "refused-but-must-answer",
                None,
                json!({"endpoint": "get_balance", "max_announced_height": max_announced, "best_height": info.height, "got": format!("{:?}", r)}),
            );
        } else if must_refuse {
            out.count("gate_closed_states");
        } else {
            out.count("gate_open_states");
            if max_announced.is_some() {
                out.count("gate_open_states_with_pending_headers");
            }
        }
    }

    fn structural_checks(&self, s: &mut SCtx, out: &mut Out) {
        // (1) at most one outstanding request
        if s.parked.len() > 1 {
            out.violation("two-requests-outstanding", None, json!({"parked": s.parked.len()}));
        }
        // (5) no block twice, no insert errors (the source honours processed_block_hashes)
        let tree = s.w.tree_hashes();
        let mut t = tree.clone();
        t.sort();
        t.dedup();
        if t.len() != tree.len() {
            out.violation("block-twice-in-tree", None, json!({}));
        }
        let (ins_err, des_err, fetching, stored) = with_state(|st| {
            (
                st.syncing_state.num_insert_block_errors,
                st.syncing_state.num_block_deserialize_errors,
                st.syncing_state.is_fetching_blocks,
                st.syncing_state.response_to_process.is_some(),
            )
        });
        if ins_err != 0 || des_err != 0 {
            out.violation(
                "block-offered-or-applied-twice-or-corrupted",
                None,
                json!({"num_insert_block_errors": ins_err, "num_block_deserialize_errors": des_err}),
            );
        }
        // the guard flag mirrors the parked request
        if fetching != !s.parked.is_empty() {
            out.violation(
                "fetch-flag-out-of-step",
                None,
                json!({"is_fetching_blocks": fetching, "parked_requests": s.parked.len()}),
            );
        }
        if s.last_was_upgrade && (fetching || stored) {
            out.violation("syncing-state-not-reset-by-upgrade", None, json!({"fetching": fetching, "stored": stored}));
        }
        // (3) blocks in the cache are byte-identical to the pool's
        crate::props::c20::check_bookkeeping(&s.w, out);
    }
}

impl Model for SchedModel {
    type S = SCtx;
    type Ev = SEv;

    fn init(&self) -> SCtx {
        // a non-default blocks source, so that the destination of the requests is observable
        let mut wcfg = WorldCfg::on(self.net, self.theta);
        wcfg.custom_source = true;
        wcfg.disable_if_not_synced = self.sync_gate && !self.gate_toggle;
        let w = World::new(wcfg);
        rt::enable_yield_point(true);
        let _ = rt::take_built_requests();
        SCtx {
            w,
            parked: vec![],
            src: SourceState::default(),
            deviations: 0,
            dead: false,
            expect_follow_up: None,
            expect_initial: false,
            last_was_upgrade: false,
            syncing: true,
            announced_ref: Default::default(),
            gate_on: self.sync_gate && !self.gate_toggle,
        }
    }

    fn enabled(&self, s: &SCtx, hist: &[SEv]) -> Vec<SEv> {
        if s.dead || hist.len() >= self.max_depth {
            return vec![];
        }
        let dev_ok = s.deviations < self.max_deviations;
        let mut evs = vec![];
        if self.gate_toggle && !s.gate_on && !hist.is_empty() {
            evs.push(SEv::SetGate);
        }
        if !s.syncing {
            // while syncing is off the controller's next move is to switch it on again
            // (possibly after heartbeats and replies to a request that was already out)
            evs.push(SEv::SetSyncing(true));
        } else if dev_ok && self.syncing_toggles && !hist.is_empty() && !matches!(hist.last(), Some(SEv::SetSyncing(_))) {
            evs.push(SEv::SetSyncing(false));
        }
        if s.parked.is_empty() {
            evs.push(SEv::Hb);
            if dev_ok && !s.last_was_upgrade && !hist.is_empty() {
                evs.push(SEv::Upgrade);
            }
        } else {
            for which in 0..s.parked.len() {
                evs.push(SEv::Reply { which, kind: Reply::Normal });
            }
            if dev_ok {
                evs.push(SEv::Hb);
                for which in 0..s.parked.len() {
                    evs.push(SEv::Reply { which, kind: Reply::Reject });
                    if matches!(s.parked[which].request, GetSuccessorsRequest::Initial(_)) {
                        evs.push(SEv::Reply { which, kind: Reply::Empty });
                    }
                }
                evs.push(SEv::Upgrade);
            }
        }
        evs
    }

    fn apply(&self, s: &mut SCtx, ev: &SEv, check: bool, out: &mut Out) -> bool {
        rt::enable_yield_point(true);
        let was_upgrade = s.last_was_upgrade;
        s.last_was_upgrade = false;
        let _ = was_upgrade;
        match ev {
            SEv::Hb => {
                if !s.parked.is_empty() {
                    s.deviations += 1;
                    if check {
                        out.count("heartbeats_while_a_request_is_outstanding");
                    }
                }
                let _ = rt::take_built_requests();
                // a complete response waiting to be processed
                let stored_complete = with_state(|st| {
                    matches!(&st.syncing_state.response_to_process, Some(ic_btc_canister::state::ResponseToProcess::Complete(_)))
                });
                crate::world::set_budget(self.hb_budget);
                let mut fut: Pin<Box<dyn Future<Output = ()>>> = Box::pin(ic_btc_canister::heartbeat());
                let r = guarded(|| {
                    let mut cx = Context::from_waker(Waker::noop());
                    fut.as_mut().poll(&mut cx)
                });
                crate::world::clear_budget();
                match r {
                    Err(p) => {
                        std::mem::forget(fut);
                        s.dead = true;
                        if check {
                            out.violation("heartbeat-trap", None, json!({"panic": p}));
                        }
                        return false;
                    }
                    Ok(Poll::Ready(())) => {
                        let built = rt::take_built_requests();
                        if !built.is_empty() && check {
                            out.violation("machinery:request-built-but-heartbeat-finished", None, json!({}));
                        }
                    }
                    Ok(Poll::Pending) => {
                        let mut built = rt::take_built_requests();
                        if built.len() != 1 {
                            std::mem::forget(fut);
                            out.violation("machinery:parked-without-request", None, json!({"built": built.len()}));
                            s.dead = true;
                            return false;
                        }
                        let request = built.pop().unwrap();
                        if check {
                            self.check_request(s, &request, out);
                        } else {
                            // keep the monitor in step during replays
                            if matches!(request, GetSuccessorsRequest::Initial(_)) {
                                s.expect_initial = false;
                            }
                        }
                        s.parked.push(ParkedHb { fut, request });
                    }
                }
                self.absorb(s, out, check);
                if stored_complete {
                    let processed = with_state(|st| st.syncing_state.response_to_process.is_none());
                    if processed {
                        // judged against what the source sent, not against what was stored
                        let next = std::mem::take(&mut s.src.pending_next);
                        self.response_processed(s, &next, out, check);
                    }
                }
            }
            SEv::Reply { which, kind } => {
                if *which >= s.parked.len() {
                    return false;
                }
                let ParkedHb { mut fut, request } = s.parked.remove(*which);
                let reply = match kind {
                    Reply::Normal => {
                        let resp = self.answer(s, &request, out, check);
                        // protocol monitor
                        match &resp {
                            GetSuccessorsResponse::Partial(p) => {
                                s.expect_follow_up = if p.remaining_follow_ups > 0 { Some(0) } else { None };
                                if check {
                                    out.count("partial_replies");
                                }
                            }
                            GetSuccessorsResponse::FollowUp(_) => {
                                let k = s.expect_follow_up.unwrap_or(0) + 1;
                                s.expect_follow_up = if (k as usize) < self.pool.follow_ups { Some(k) } else { None };
                            }
                            GetSuccessorsResponse::Complete(_) => {
                                s.expect_follow_up = None;
                            }
                        }
                        GetSuccessorsReply::Ok(resp)
                    }
                    Reply::Reject => {
                        s.deviations += 1;
                        if check {
                            out.count("rejects");
                            if s.expect_follow_up.is_some() {
                                out.count("rejects_between_pages");
                            }
                        }
                        s.expect_follow_up = None;
                        s.expect_initial = true;
                        s.src.pages = None;
                        GetSuccessorsReply::Err(ic_cdk::call::RejectCode::CanisterReject, "verif: reject".into())
                    }
                    Reply::Empty => {
                        s.deviations += 1;
                        if check {
                            out.count("empty_replies");
                        }
                        s.src.pending_next = vec![];
                        GetSuccessorsReply::Ok(GetSuccessorsResponse::Complete(GetSuccessorsCompleteResponse::default()))
                    }
                };
                runtime::set_successors_response(reply);
                let _ = rt::take_successors_requests();
                rt::release_yield();
                let r = guarded(|| {
                    let mut cx = Context::from_waker(Waker::noop());
                    fut.as_mut().poll(&mut cx)
                });
                match r {
                    Err(p) => {
                        std::mem::forget(fut);
                        s.dead = true;
                        if check {
                            out.violation("heartbeat-trap-on-reply", None, json!({"panic": p, "reply": kind}));
                        }
                        return false;
                    }
                    Ok(Poll::Pending) => {
                        std::mem::forget(fut);
                        s.dead = true;
                        out.violation("machinery:still-pending-after-release", None, json!({}));
                        return false;
                    }
                    Ok(Poll::Ready(())) => {}
                }
                if check {
                    let sent = rt::take_successors_requests();
                    if sent.len() != 1 || sent[0].1 != request {
                        out.violation(
                            "machinery:sent-request-differs-from-built-request",
                            None,
                            json!({"sent": sent.len()}),
                        );
                    }
                    if sent.len() == 1 && sent[0].0 != crate::world::configured_source(&s.w.cfg) {
                        out.violation(
                            "request-sent-to-another-canister",
                            None,
                            json!({"destination": sent[0].0.to_text(), "configured": crate::world::configured_source(&s.w.cfg).to_text()}),
                        );
                    }
                    if matches!(kind, Reply::Reject) {
                        let stored = with_state(|st| st.syncing_state.response_to_process.is_some());
                        if stored {
                            out.violation("reject-kept-partial-data", None, json!({}));
                        }
                    }
                    // the last page arrived: what is stored for processing is exactly what
                    // the source sent (the block bytes and the headers of the first page)
                    if matches!(kind, Reply::Normal)
                        && matches!(request, GetSuccessorsRequest::FollowUp(_))
                        && s.expect_follow_up.is_none()
                        && s.src.pages.is_some()
                    {
                        let large = self.pool.large.expect("large block");
                        let want_block = factory::block_bytes(&self.pool.blocks[large]);
                        let want_next: Vec<ic_btc_canister::types::BlockHeaderBlob> = s
                            .src
                            .partial_next
                            .iter()
                            .map(|c| header_blob(factory::header_bytes(&self.pool.blocks[*c].header)))
                            .collect();
                        let ok = with_state(|st| match &st.syncing_state.response_to_process {
                            Some(ic_btc_canister::state::ResponseToProcess::Complete(c)) => {
                                c.blocks.len() == 1 && c.blocks[0] == want_block && c.next == want_next
                            }
                            _ => false,
                        });
                        if !ok {
                            out.violation(
                                "reassembled-response-differs-from-what-the-source-sent",
                                None,
                                json!({"pages": self.pool.follow_ups + 1, "announced_with_first_page": want_next.len()}),
                            );
                        } else {
                            out.count("reassembled_responses_identical");
                            if !want_next.is_empty() {
                                out.count("reassembled_responses_with_announced_headers");
                            }
                        }
                    }
                }
                self.absorb(s, out, check);
            }
            SEv::SetGate => {
                let r = s.w.set_config(ic_btc_interface::SetConfigRequest {
                    disable_api_if_not_fully_synced: Some(ic_btc_interface::Flag::Enabled),
                    ..Default::default()
                });
                if let Err(p) = r {
                    s.dead = true;
                    if check {
                        out.violation("set-config-trap", None, json!({"panic": p}));
                    }
                    return false;
                }
                s.gate_on = true;
                if check {
                    out.count("sync_flag_switched_on_mid_history");
                }
            }
            SEv::SetSyncing(on) => {
                if !*on {
                    s.deviations += 1;
                    if check {
                        out.count("syncing_switched_off");
                        if s.expect_follow_up.is_some() {
                            out.count("syncing_switched_off_between_pages");
                        }
                    }
                }
                let r = s.w.set_config(ic_btc_interface::SetConfigRequest {
                    syncing: Some(crate::world::flag(*on)),
                    ..Default::default()
                });
                if let Err(p) = r {
                    s.dead = true;
                    if check {
                        out.violation("set-config-trap", None, json!({"panic": p}));
                    }
                    return false;
                }
                s.syncing = *on;
            }
            SEv::Upgrade => {
                s.deviations += 1;
                let before = if check && self.upgrade_transparency {
                    Some(observe::observe(&s.w, &ObsOpts::default()))
                } else {
                    None
                };
                if check {
                    out.count("upgrades");
                    if !s.parked.is_empty() {
                        out.count("upgrades_with_a_request_outstanding");
                    }
                    if s.expect_follow_up.is_some() {
                        out.count("upgrades_with_partial_pages_stored");
                    }
                    if with_state(|st| matches!(st.syncing_state.response_to_process, Some(ic_btc_canister::state::ResponseToProcess::Complete(_)))) {
                        out.count("upgrades_with_a_complete_response_stored");
                    }
                }
                // outstanding call contexts die with the old instance: never resumed,
                // and their destructors never run
                for p in s.parked.drain(..) {
                    std::mem::forget(p.fut);
                }
                s.src.pages = None;
                s.expect_follow_up = None;
                s.expect_initial = true;
                if let Err(p) = s.w.upgrade(None) {
                    s.dead = true;
                    if check {
                        out.violation("upgrade-trap", None, json!({"panic": p}));
                    }
                    return false;
                }
                s.last_was_upgrade = true;
                if let Some(b) = before {
                    let after = observe::observe(&s.w, &ObsOpts::default());
                    let d = observe::diff(&b, &after);
                    out.add("probes_compared_across_upgrade", after.len() as u64);
                    if !d.is_empty() {
                        let only_len = d.iter().all(|k| k == "info.utxos_length");
                        out.violation(
                            "answer-changed-by-upgrade",
                            if only_len { Some("F6") } else { None },
                            json!({"differing_probes": d.iter().take(8).collect::<Vec<_>>(), "n_differing": d.len()}),
                        );
                    }
                }
            }
        }
        true
    }

    fn check(&self, s: &mut SCtx, hist: &[SEv], out: &mut Out) {
        self.structural_checks(s, out);
        if self.sync_gate && !s.dead {
            self.gate_check(s, out);
        }
        out.distinct.insert(crate::world::full_fingerprint() as u64);
        if let Ok(i) = s.w.info() {
            out.outcomes.insert(crate::util::fp64(&i.block_hash));
        }
        if !self.liveness || s.dead {
            return;
        }
        // (7) bounded liveness: a fault-free suffix syncs everything
        let k = 6 * self.pool.blocks.len() + self.pool.follow_ups + 12 + if self.hb_budget.is_some() { 40 } else { 0 };
        let mut scratch = Out::default();
        let mut steps = 0;
        // synced: the source has nothing left to offer for the current tree (a pool block
        // whose parent was discarded or stabilised is never offered) and nothing is stored
        let all_in = |s: &SCtx| {
            self.pool.candidates(&s.w.tree_hashes()).is_empty()
                && with_state(|st| st.syncing_state.response_to_process.is_none())
                && !s.w.is_ingesting()
        };
        if !s.syncing {
            let _ = self.apply(s, &SEv::SetSyncing(true), false, &mut scratch);
        }
        while steps < k && !(all_in(s) && s.parked.is_empty()) {
            let ev = if s.parked.is_empty() {
                SEv::Hb
            } else {
                SEv::Reply { which: 0, kind: Reply::Normal }
            };
            if !self.apply(s, &ev, false, &mut scratch) {
                break;
            }
            steps += 1;
        }
        let synced = all_in(s);
        let tip_ok = {
            let anchor = s.w.anchor();
            s.w.refm.has(&anchor) && {
                let best = s.w.refm.best_chain(&anchor);
                s.w.info().map(|i| i.block_hash == best.last().unwrap().to_vec()).unwrap_or(false)
            }
        };
        if !synced || !tip_ok {
            out.violation(
                "not-synced-after-fault-free-suffix",
                None,
                json!({"suffix_steps": steps, "all_pool_blocks_accepted": synced, "tip_is_best": tip_ok,
                       "dead": s.dead}),
            );
        } else {
            out.count("liveness_suffixes_checked");
        }
        // restore the explored state
        for p in s.parked.drain(..) {
            std::mem::forget(p.fut);
        }
        let mut fresh = self.init();
        for e in hist {
            self.apply(&mut fresh, e, false, &mut scratch);
        }
        *s = fresh;
    }

    fn key(&self, s: &SCtx, _hist: &[SEv]) -> Option<u128> {
        let mut b = crate::world::full_fingerprint().to_le_bytes().to_vec();
        for p in &s.parked {
            b.extend(format!("{:?}", p.request).as_bytes());
        }
        b.push(s.deviations as u8);
        b.push(s.src.pages.is_some() as u8);
        b.push(s.expect_follow_up.map(|x| x + 1).unwrap_or(0));
        b.push(s.expect_initial as u8);
        b.push(s.last_was_upgrade as u8);
        b.push(s.dead as u8);
        b.push(s.syncing as u8);
        b.push(s.gate_on as u8);
        b.push(0xFE);
        for i in &s.announced_ref {
            b.push(*i as u8);
        }
        b.push(0xFE);
        b.extend(s.src.pending_next.iter().map(|i| *i as u8));
        b.push(0xFE);
        if s.src.pages.is_some() {
            b.extend(s.src.partial_next.iter().map(|i| *i as u8));
        }
        let h = crate::util::sha256(&b);
        Some(u128::from_le_bytes(h[..16].try_into().unwrap()))
    }

    fn sample(&self, s: &mut SCtx, hist: &[SEv]) -> Value {
        json!({
            "schedule": hist,
            "deviations": s.deviations,
            "final_tip_height": s.w.info().ok().map(|i| i.height),
            "blocks_in_tree": s.w.tree_hashes().len(),
            "stable_height": s.w.stable_height(),
        })
    }
}

impl Drop for SCtx {
    fn drop(&mut self) {
        // never run the destructor of a parked heartbeat: its guard would write into
        // whatever canister state this thread holds by then
        for p in self.parked.drain(..) {
            std::mem::forget(p.fut);
        }
    }
}

//! The real canister as a transition system: reset / events / probes, with the
//! reference model running in lock-step.
use crate::factory::{self, Book};
use crate::refmodel::{RefModel, H32};
use crate::util::guarded;
use bitcoin::hashes::Hash;
use ic_btc_canister::runtime::{self, verif_hooks as rt};
use ic_btc_canister::state::{self, State};
use ic_btc_canister::types::{
    GetSuccessorsCompleteResponse, GetSuccessorsResponse, Slicing,
};
use ic_btc_canister::{with_state, with_state_mut};
use ic_btc_interface::{
    Fees, Flag, GetBalanceError, GetBalanceRequest, GetBlockHeadersError, GetBlockHeadersRequest,
    GetBlockHeadersResponse, GetCurrentFeePercentilesRequest, GetUtxosError, GetUtxosRequest,
    GetUtxosResponse, InitConfig, Network, NetworkInRequest, SetConfigRequest,
    UtxosFilterInRequest,
};
use ic_btc_types::Block as CBlock;
use ic_stable_structures::memory_manager::MemoryManager;
use ic_stable_structures::DefaultMemoryImpl;
use serde_bytes::ByteBuf;
use std::future::Future;
use std::pin::Pin;
use std::task::{Context, Poll, Waker};

pub const SLICE_THRESHOLD: u64 = 1_000_000_000;

#[derive(Clone, Debug)]
pub struct WorldCfg {
    pub net: Network,
    pub threshold: u32,
    pub lazy_fees: bool,
    pub api_access: bool,
    pub disable_if_not_synced: bool,
    pub fees: Option<Fees>,
    pub syncing: bool,
    /// also set the remaining configuration fields to non-default values (watchdog
    /// canister, burn_cycles, blocks source)
    pub exotic: bool,
    /// a blocks source other than the default (management canister)
    pub custom_source: bool,
    /// block timestamps are not monotone: every block at a height divisible by 3 is dated one
    /// second before its parent (still later than the median of its 11 predecessors)
    pub time_dips: bool,
}

impl WorldCfg {
    pub fn regtest(threshold: u32) -> Self {
        WorldCfg {
            net: Network::Regtest,
            threshold,
            lazy_fees: false,
            api_access: true,
            disable_if_not_synced: false,
            fees: None,
            syncing: true,
            exotic: false,
            custom_source: false,
            time_dips: false,
        }
    }
    pub fn on(net: Network, threshold: u32) -> Self {
        WorldCfg {
            net,
            ..Self::regtest(threshold)
        }
    }
}

pub fn flag(b: bool) -> Flag {
    if b {
        Flag::Enabled
    } else {
        Flag::Disabled
    }
}

pub fn net_req(n: Network) -> NetworkInRequest {
    match n {
        Network::Mainnet => NetworkInRequest::Mainnet,
        Network::Testnet => NetworkInRequest::Testnet,
        Network::Regtest => NetworkInRequest::Regtest,
    }
}

/// The request-side network type spells every network twice (`Mainnet` / `mainnet`, ...).
pub fn net_req_spelled(n: Network, lower: bool) -> NetworkInRequest {
    match (n, lower) {
        (Network::Mainnet, false) => NetworkInRequest::Mainnet,
        (Network::Testnet, false) => NetworkInRequest::Testnet,
        (Network::Regtest, false) => NetworkInRequest::Regtest,
        (Network::Mainnet, true) => NetworkInRequest::mainnet,
        (Network::Testnet, true) => NetworkInRequest::testnet,
        (Network::Regtest, true) => NetworkInRequest::regtest,
    }
}

/// Outcome of one ingestion call.
#[derive(Clone, Copy, Debug, PartialEq, Eq, serde::Serialize)]
pub enum Ingested {
    Paused,
    DoneWork,
    Nothing,
}

pub struct World {
    pub cfg: WorldCfg,
    pub book: Book,
    pub refm: RefModel,
    /// id -> hash of every block ever *offered* and accepted (0 = genesis)
    pub ids: Vec<H32>,
    /// every accepted block by hash
    pub blocks: std::collections::HashMap<H32, bitcoin::Block>,
    pub now: u64,
    /// every announced header that was offered (all valid and connected by construction)
    pub announced: Vec<Announced>,
}

#[derive(Clone, Debug)]
pub struct Announced {
    pub hash: H32,
    pub prev: H32,
    pub height: u32,
    pub header: bitcoin::block::Header,
    /// the block this header belongs to (known for the first header of a chain)
    pub block: Option<bitcoin::Block>,
}

/// Resets the thread's canister to a freshly initialised one.
pub fn reset_canister(cfg: &WorldCfg) {
    rt::silence_print(true);
    rt::enable_yield_point(false);
    rt::set_performance_counter(0);
    rt::set_performance_counter_step(0);
    rt::set_cycles_balance(0);
    rt::set_cycles_available(None);
    let _ = rt::take_sent_transactions();
    let _ = rt::take_successors_requests();
    runtime::set_successors_responses(vec![]);
    let mem = DefaultMemoryImpl::default();
    // Pre-format with the smallest bucket size so that init does not allocate 8 x 8 MiB.
    drop(MemoryManager::init_with_bucket_size(mem.clone(), 1));
    ic_btc_canister::memory::set_memory(mem);
    runtime::mock_time::set_mock_time_secs(factory::now_secs(cfg.net));
    ic_btc_canister::init(InitConfig {
        stability_threshold: Some(cfg.threshold as u128),
        network: Some(cfg.net),
        blocks_source: if cfg.exotic || cfg.custom_source {
            Some(candid::Principal::from_slice(&[7, 7, 7]))
        } else {
            None
        },
        syncing: Some(flag(cfg.syncing)),
        fees: cfg.fees.clone(),
        api_access: Some(flag(cfg.api_access)),
        disable_api_if_not_fully_synced: Some(flag(cfg.disable_if_not_synced)),
        watchdog_canister: if cfg.exotic {
            Some(Some(candid::Principal::from_slice(&[9, 9])))
        } else {
            None
        },
        burn_cycles: if cfg.exotic { Some(Flag::Enabled) } else { None },
        lazily_evaluate_fee_percentiles: Some(flag(cfg.lazy_fees)),
    });
}

/// The principal the canister was configured to fetch from / forward to.
pub fn configured_source(cfg: &WorldCfg) -> candid::Principal {
    if cfg.exotic || cfg.custom_source {
        candid::Principal::from_slice(&[7, 7, 7])
    } else {
        candid::Principal::management_canister()
    }
}

impl World {
    pub fn new(cfg: WorldCfg) -> World {
        reset_canister(&cfg);
        let g = factory::genesis(cfg.net);
        let gd = with_state(|s| s.unstable_blocks.anchor_difficulty());
        let refm = RefModel::new(&g, gd);
        let gh = g.block_hash().to_byte_array();
        let mut blocks = std::collections::HashMap::new();
        blocks.insert(gh, g);
        World {
            book: Book::new(cfg.net),
            now: factory::now_secs(cfg.net),
            cfg,
            refm,
            ids: vec![gh],
            blocks,
            announced: vec![],
        }
    }

    pub fn net(&self) -> Network {
        self.cfg.net
    }

    // ------------------------------------------------------------ implementation views

    pub fn tree_hashes(&self) -> Vec<H32> {
        with_state(|s| {
            state::get_block_hashes(s)
                .iter()
                .map(|h| h.as_bytes().try_into().unwrap())
                .collect()
        })
    }

    pub fn anchor(&self) -> H32 {
        self.tree_hashes()[0]
    }

    pub fn stable_height(&self) -> u32 {
        with_state(|s| s.stable_height())
    }

    pub fn threshold(&self) -> u32 {
        with_state(|s| s.unstable_blocks.stability_threshold())
    }

    pub fn is_ingesting(&self) -> bool {
        with_state(|s| s.utxos.ingesting_block.is_some())
    }

    // ------------------------------------------------------------ events

    /// Delivers a block through `state::insert_block` (regtest: full validation) with a
    /// mock difficulty. Records it in the reference model iff the canister accepted it.
    pub fn deliver_direct(&mut self, block: &bitcoin::Block, diff: Option<u128>) -> Result<bool, String> {
        let mut cb = CBlock::new(block.clone());
        cb.mock_difficulty = diff;
        let real = cb.difficulty(self.cfg.net);
        let r = guarded(|| with_state_mut(|s| state::insert_block(s, cb)));
        match r {
            Err(p) => Err(p),
            Ok(Ok(())) => {
                self.record(block, diff.unwrap_or(real));
                Ok(true)
            }
            Ok(Err(_)) => Ok(false),
        }
    }

    /// Delivers a block through `unstable_blocks::push` (no header validation): the
    /// only way to build trees on mainnet/testnet natively.
    pub fn deliver_push(&mut self, block: &bitcoin::Block, diff: Option<u128>) -> Result<bool, String> {
        let mut cb = CBlock::new(block.clone());
        cb.mock_difficulty = diff;
        let real = cb.difficulty(self.cfg.net);
        let r = guarded(|| {
            with_state_mut(|s| {
                ic_btc_canister::unstable_blocks::push(&mut s.unstable_blocks, &s.utxos, cb)
            })
        });
        match r {
            Err(p) => Err(p),
            Ok(Ok(())) => {
                self.record(block, diff.unwrap_or(real));
                Ok(true)
            }
            Ok(Err(_)) => Ok(false),
        }
    }

    /// Builds a block with `txs` on `parent` (timestamp +600 s) without delivering it.
    pub fn make_block(&self, parent: &H32, txs: Vec<bitcoin::Transaction>) -> bitcoin::Block {
        let ph = self.blocks.get(parent).expect("known parent").header;
        match self.cfg.net {
            Network::Regtest => factory::regtest_block(&ph, ph.time + 600, txs),
            _ => factory::unmined_block(&ph, ph.time + 600, 0x1d00ffff, txs),
        }
    }

    /// Builds and delivers (direct channel) a block; panics if it is not accepted.
    pub fn extend(&mut self, parent: &H32, txs: Vec<bitcoin::Transaction>, diff: u128) -> H32 {
        let b = self.make_block(parent, txs);
        let ok = match self.cfg.net {
            Network::Regtest => self.deliver_direct(&b, Some(diff)),
            _ => self.deliver_push(&b, Some(diff)),
        };
        assert_eq!(ok, Ok(true), "harness block must be accepted");
        *self.ids.last().unwrap()
    }

    pub fn record(&mut self, block: &bitcoin::Block, diff: u128) {
        let h = self.refm.add_block(block, diff);
        self.ids.push(h);
        self.blocks.insert(h, block.clone());
    }

    /// One ingestion opportunity with a budget of `budget` slicing call sites
    /// (`None` = unlimited).
    pub fn ingest(&mut self, budget: Option<u64>) -> Result<Ingested, String> {
        set_budget(budget);
        let r = guarded(|| with_state_mut(state::ingest_stable_blocks_into_utxoset));
        clear_budget();
        r.map(|s| match s {
            Slicing::Paused(()) => Ingested::Paused,
            Slicing::Done(true) => Ingested::DoneWork,
            Slicing::Done(false) => Ingested::Nothing,
        })
    }

    pub fn upgrade(&mut self, cfg: Option<SetConfigRequest>) -> Result<(), String> {
        guarded(|| {
            ic_btc_canister::pre_upgrade();
            ic_btc_canister::post_upgrade(cfg);
        })
    }

    pub fn set_config(&mut self, req: SetConfigRequest) -> Result<(), String> {
        guarded(|| ic_btc_canister::set_config(req))
    }

    pub fn set_threshold(&mut self, t: u32) -> Result<(), String> {
        self.set_config(SetConfigRequest {
            stability_threshold: Some(t as u128),
            ..Default::default()
        })
    }

    /// Runs one complete heartbeat with the given (optional) reply queued; the yield
    /// point is disabled, so the heartbeat runs to completion in one poll.
    pub fn heartbeat_with(&mut self, reply: Option<runtime::GetSuccessorsReply>, budget: Option<u64>) -> Result<(), String> {
        rt::enable_yield_point(false);
        match reply {
            Some(r) => runtime::set_successors_response(r),
            None => runtime::set_successors_responses(vec![]),
        }
        set_budget(budget);
        let r = guarded(|| {
            let mut fut = Box::pin(ic_btc_canister::heartbeat());
            let mut cx = Context::from_waker(Waker::noop());
            match fut.as_mut().poll(&mut cx) {
                Poll::Ready(()) => true,
                Poll::Pending => false,
            }
        });
        clear_budget();
        match r {
            Ok(true) => Ok(()),
            Ok(false) => Err("heartbeat pending with yield point disabled".into()),
            Err(p) => Err(p),
        }
    }

    // ------------------------------------------------------------ probes (never mutate
    // anything a decision reads; metrics are masked in fingerprints)

    pub fn info(&self) -> Result<ic_btc_interface::BlockchainInfo, String> {
        guarded(ic_btc_canister::get_blockchain_info)
    }

    pub fn utxos_req(
        &self,
        address: &str,
        filter: Option<UtxosFilterInRequest>,
        limit: Option<usize>,
    ) -> Result<Result<GetUtxosResponse, GetUtxosError>, String> {
        let req = GetUtxosRequest {
            address: address.to_string(),
            network: net_req(self.cfg.net),
            filter,
        };
        guarded(|| match limit {
            None => ic_btc_canister::get_utxos_query(req),
            Some(l) => ic_btc_canister::verif_hooks::get_utxos_with_limit(req, l),
        })
    }

    /// Follows `next_page` to the end. Returns the first response's tip, all pages.
    pub fn utxos_all(
        &self,
        address: &str,
        min_conf: Option<u32>,
        limit: Option<usize>,
    ) -> Result<Result<Paged, GetUtxosError>, String> {
        let first = self.utxos_req(address, min_conf.map(UtxosFilterInRequest::MinConfirmations), limit)?;
        let first = match first {
            Ok(r) => r,
            Err(e) => return Ok(Err(e)),
        };
        let mut pages = vec![first.clone()];
        let mut next = first.next_page.clone();
        let mut guard = 0;
        // queries are deterministic: a page token seen before means the listing never ends
        let mut seen_tokens: std::collections::HashSet<Vec<u8>> = std::collections::HashSet::new();
        while let Some(p) = next {
            guard += 1;
            if guard > 100_000 || !seen_tokens.insert(p.to_vec()) {
                return Err("pagination does not terminate".into());
            }
            let r = self.utxos_req(address, Some(UtxosFilterInRequest::Page(p)), limit)?;
            match r {
                Ok(r) => {
                    next = r.next_page.clone();
                    pages.push(r);
                }
                Err(e) => {
                    return Ok(Ok(Paged {
                        pages,
                        follow_up_error: Some(e),
                    }))
                }
            }
        }
        Ok(Ok(Paged {
            pages,
            follow_up_error: None,
        }))
    }

    pub fn balance(&self, address: &str, min_conf: Option<u32>) -> Result<Result<u64, GetBalanceError>, String> {
        let req = GetBalanceRequest {
            address: address.to_string(),
            network: net_req(self.cfg.net),
            min_confirmations: min_conf,
        };
        guarded(|| ic_btc_canister::get_balance_query(req))
    }

    /// The update variants (they charge cycles on the mock balance).
    pub fn utxos_update(
        &self,
        address: &str,
        filter: Option<UtxosFilterInRequest>,
    ) -> Result<Result<GetUtxosResponse, GetUtxosError>, String> {
        let req = GetUtxosRequest {
            address: address.to_string(),
            network: net_req(self.cfg.net),
            filter,
        };
        guarded(|| ic_btc_canister::get_utxos(req))
    }

    pub fn balance_update(&self, address: &str, min_conf: Option<u32>) -> Result<Result<u64, GetBalanceError>, String> {
        let req = GetBalanceRequest {
            address: address.to_string(),
            network: net_req(self.cfg.net),
            min_confirmations: min_conf,
        };
        guarded(|| ic_btc_canister::get_balance(req))
    }

    pub fn headers(
        &self,
        start: u32,
        end: Option<u32>,
    ) -> Result<Result<GetBlockHeadersResponse, GetBlockHeadersError>, String> {
        let req = GetBlockHeadersRequest {
            start_height: start,
            end_height: end,
            network: net_req(self.cfg.net),
        };
        guarded(|| ic_btc_canister::get_block_headers(req))
    }

    /// NOTE: this is the update call; in lazy mode it refreshes the fee cache.
    pub fn fee_percentiles(&self) -> Result<Vec<u64>, String> {
        let req = GetCurrentFeePercentilesRequest {
            network: net_req(self.cfg.net),
        };
        guarded(|| ic_btc_canister::get_current_fee_percentiles(req))
    }

    pub fn config(&self) -> ic_btc_interface::Config {
        ic_btc_canister::get_config()
    }
}

#[derive(Clone, Debug)]
pub struct Paged {
    pub pages: Vec<GetUtxosResponse>,
    pub follow_up_error: Option<GetUtxosError>,
}

impl Paged {
    pub fn all(&self) -> Vec<ic_btc_interface::Utxo> {
        self.pages.iter().flat_map(|p| p.utxos.iter().cloned()).collect()
    }
    pub fn tip(&self) -> (H32, u32) {
        (
            self.pages[0].tip_block_hash.clone().try_into().unwrap_or([0xee; 32]),
            self.pages[0].tip_height,
        )
    }
}

pub fn set_budget(budget: Option<u64>) {
    match budget {
        None => {
            rt::set_performance_counter(0);
            rt::set_performance_counter_step(0);
        }
        Some(b) => {
            // the (b+1)-th slicing check is the first to see the threshold
            rt::set_performance_counter(SLICE_THRESHOLD - b - 1);
            rt::set_performance_counter_step(1);
        }
    }
}

pub fn clear_budget() {
    rt::set_performance_counter(0);
    rt::set_performance_counter_step(0);
}

pub fn complete_reply(blocks: Vec<Vec<u8>>, next: Vec<Vec<u8>>) -> runtime::GetSuccessorsReply {
    runtime::GetSuccessorsReply::Ok(GetSuccessorsResponse::Complete(
        GetSuccessorsCompleteResponse {
            blocks,
            next: next.into_iter().map(header_blob).collect(),
        },
    ))
}

/// Builds a `BlockHeaderBlob` of any length (the `From<Vec<u8>>` impl asserts 80 bytes,
/// the candid decoder used in production does not).
pub fn header_blob(bytes: Vec<u8>) -> ic_btc_canister::types::BlockHeaderBlob {
    if bytes.len() == 80 {
        return ic_btc_canister::types::BlockHeaderBlob::from(bytes);
    }
    let enc = candid::encode_one(ByteBuf::from(bytes)).unwrap();
    candid::decode_one(&enc).expect("candid blob decodes into BlockHeaderBlob")
}

/// A parked heartbeat (pending at the yield point).
pub struct Parked {
    pub fut: Pin<Box<dyn Future<Output = ()>>>,
}

/// Serialised state with volatile statistics masked, as bytes (for fingerprints).
pub fn state_bytes(mask_stats: bool) -> Vec<u8> {
    let mut bytes = vec![];
    with_state(|s: &State| ciborium::ser::into_writer(s, &mut bytes)).expect("state serialises");
    if !mask_stats {
        return bytes;
    }
    let mut v: ciborium::Value = ciborium::de::from_reader(bytes.as_slice()).expect("state value");
    mask_value(&mut v);
    let mut out = vec![];
    ciborium::ser::into_writer(&v, &mut out).unwrap();
    out
}

fn mask_value(v: &mut ciborium::Value) {
    use ciborium::Value as V;
    if let V::Map(entries) = v {
        for (k, val) in entries.iter_mut() {
            if let V::Text(name) = k {
                match name.as_str() {
                    // histograms and instruction statistics: probes mutate them, no decision reads them
                    "metrics" => mask_metrics(val),
                    "get_successors_request_stats" | "get_successors_response_stats" => {
                        *val = V::Null
                    }
                    "stats" => *val = V::Null, // IngestingBlock.stats
                    _ => mask_value(val),
                }
            } else {
                mask_value(val);
            }
        }
    } else if let V::Array(items) = v {
        for i in items.iter_mut() {
            mask_value(i);
        }
    }
}

fn mask_metrics(v: &mut ciborium::Value) {
    use ciborium::Value as V;
    if let V::Map(entries) = v {
        entries.retain(|(k, _)| matches!(k, V::Text(n) if n == "send_transaction_count" || n == "cycles_burnt"));
    }
}

/// Logical dump (contents, not B-tree layout) of everything `Serialize` skips: the stable
/// maps, the block cache and the per-block metrics.
pub fn logical_dump() -> Vec<u8> {
    let (mut a, b) = logical_dump_parts();
    a.extend(b);
    a
}

/// (stable maps + block cache, per-block metrics)
pub fn logical_dump_parts() -> (Vec<u8>, Vec<u8>) {
    let mut out: Vec<u8> = vec![];
    let mut metrics: Vec<u8> = vec![];
    fn put(out: &mut Vec<u8>, b: &[u8]) {
        out.extend((b.len() as u32).to_le_bytes());
        out.extend(b);
    }
    with_state(|s| {
        for k in s.utxos.verif_address_utxos() {
            put(&mut out, &k);
        }
        out.push(0xA1);
        for (a, b) in s.utxos.verif_balances() {
            put(&mut out, a.as_bytes());
            out.extend(b.to_le_bytes());
        }
        out.push(0xA2);
        for e in s.utxos.utxos.small_utxos.iter() {
            put(&mut out, e.key().as_slice());
            put(&mut out, e.value().as_slice());
        }
        out.push(0xA3);
        for e in s.utxos.utxos.medium_utxos.iter() {
            put(&mut out, e.key().as_slice());
            put(&mut out, e.value().as_slice());
        }
        out.push(0xA4);
        for e in s.stable_block_headers.block_headers.iter() {
            put(&mut out, e.key().as_bytes());
            put(&mut out, e.value().as_slice());
        }
        out.push(0xA5);
        for e in s.stable_block_headers.block_heights.iter() {
            out.extend(e.key().to_le_bytes());
            put(&mut out, e.value().as_bytes());
        }
        out.push(0xA6);
        for (h, bytes) in s.unstable_blocks.verif_block_cache() {
            put(&mut out, h.as_bytes());
            put(&mut out, &bytes);
        }
        for (h, fees, delta) in s.unstable_blocks.verif_block_metrics() {
            put(&mut metrics, h.as_bytes());
            match fees {
                None => metrics.push(0),
                Some(f) => {
                    metrics.push(1);
                    for x in f {
                        metrics.extend(x.to_le_bytes());
                    }
                }
            }
            metrics.extend(delta.to_le_bytes());
        }
    });
    (out, metrics)
}

/// 128-bit fingerprint of the complete logical canister state.
pub fn full_fingerprint() -> u128 {
    let mut b = state_bytes(true);
    b.extend(logical_dump());
    let h = crate::util::sha256(&b);
    u128::from_le_bytes(h[..16].try_into().unwrap())
}

//! The full probe set as a map probe-name -> answer (used by C08, C09, C10 for
//! before/after comparisons).
use crate::world::World;
use std::collections::BTreeMap;

pub type Obs = BTreeMap<String, String>;

pub struct ObsOpts {
    pub page_limits: Vec<Option<usize>>,
    pub headers: bool,
    pub max_c_extra: u32,
}

impl Default for ObsOpts {
    fn default() -> Self {
        ObsOpts {
            page_limits: vec![None, Some(1)],
            headers: true,
            max_c_extra: 1,
        }
    }
}

pub fn observe(w: &World, o: &ObsOpts) -> Obs {
    let mut m = Obs::new();
    let info = w.info();
    let (height, chain_len) = match &info {
        Ok(i) => {
            m.insert(
                "info.tip".into(),
                format!("{} {} {} {}", i.height, hex::encode(&i.block_hash), i.timestamp, i.difficulty),
            );
            m.insert("info.utxos_length".into(), format!("{}", i.utxos_length));
            (i.height, i.height + 1 - w.stable_height().min(i.height + 1))
        }
        Err(p) => {
            m.insert("info.tip".into(), format!("TRAP {}", p));
            (0, 1)
        }
    };
    m.insert("config".into(), format!("{:?}", w.config()));
    for a in 0..w.book.addrs.len() {
        let text = w.book.text(a);
        let name = w.book.addrs[a].name;
        let mut cs: Vec<Option<u32>> = vec![None];
        for c in 0..=chain_len + o.max_c_extra {
            cs.push(Some(c));
        }
        for c in &cs {
            for l in &o.page_limits {
                let r = w.utxos_all(text, *c, *l);
                let s = match r {
                    Err(p) => format!("TRAP {}", p),
                    Ok(Err(e)) => format!("ERR {:?}", e),
                    Ok(Ok(p)) => {
                        let tips: Vec<String> = p
                            .pages
                            .iter()
                            .map(|x| format!("{}@{}", hex::encode(&x.tip_block_hash[..4]), x.tip_height))
                            .collect();
                        format!(
                            "pages={} tips={:?} follow_up_error={:?} utxos={:?}",
                            p.pages.len(),
                            tips,
                            p.follow_up_error,
                            p.all()
                                .iter()
                                .map(|u| format!(
                                    "{}:{}={}@{}",
                                    hex::encode(&<[u8; 32]>::from(u.outpoint.txid.clone())[..4]),
                                    u.outpoint.vout,
                                    u.value,
                                    u.height
                                ))
                                .collect::<Vec<_>>()
                        )
                    }
                };
                m.insert(format!("utxos[{}][c={:?}][limit={:?}]", name, c, l), s);
            }
            let b = w.balance(text, *c);
            m.insert(
                format!("balance[{}][c={:?}]", name, c),
                match b {
                    Err(p) => format!("TRAP {}", p),
                    Ok(r) => format!("{:?}", r),
                },
            );
        }
    }
    if o.headers {
        for start in 0..=height + 2 {
            let mut ends: Vec<Option<u32>> = vec![None];
            for e in 0..=height + 2 {
                ends.push(Some(e));
            }
            for e in ends {
                let r = w.headers(start, e);
                m.insert(
                    format!("headers[{}][{:?}]", start, e),
                    match r {
                        Err(p) => format!("TRAP {}", p),
                        Ok(Err(e)) => format!("ERR {:?}", e),
                        Ok(Ok(r)) => format!(
                            "tip={} n={} {:?}",
                            r.tip_height,
                            r.block_headers.len(),
                            r.block_headers.iter().map(|h| hex::encode(&crate::util::sha256d(h)[..4])).collect::<Vec<_>>()
                        ),
                    },
                );
            }
        }
    }
    m
}

/// Probe names whose answers differ (or exist on one side only).
pub fn diff(a: &Obs, b: &Obs) -> Vec<String> {
    let mut d = vec![];
    for (k, v) in a {
        if b.get(k) != Some(v) {
            d.push(k.clone());
        }
    }
    for k in b.keys() {
        if !a.contains_key(k) {
            d.push(k.clone());
        }
    }
    d
}

pub fn digest(o: &Obs) -> u64 {
    let mut b = vec![];
    for (k, v) in o {
        b.extend(k.as_bytes());
        b.push(0);
        b.extend(v.as_bytes());
        b.push(1);
    }
    crate::util::fp64(&b)
}

//! Deterministic block / transaction / address factory (regtest blocks are mined).
use bitcoin::absolute::LockTime;
use bitcoin::block::{Header, Version as BlockVersion};
use bitcoin::blockdata::constants::genesis_block;
use bitcoin::hashes::Hash;
use bitcoin::transaction::Version;
use bitcoin::{
    Address, Amount, Block, BlockHash, CompactTarget, Network as BtcNetwork, OutPoint, ScriptBuf,
    Sequence, Transaction, TxIn, TxMerkleNode, TxOut, Txid, Witness,
};
use ic_btc_interface::Network;
use std::cell::RefCell;
use std::collections::HashMap;

pub fn btc_net(n: Network) -> BtcNetwork {
    match n {
        Network::Mainnet => BtcNetwork::Bitcoin,
        Network::Testnet => BtcNetwork::Testnet4,
        Network::Regtest => BtcNetwork::Regtest,
    }
}

pub fn genesis(n: Network) -> Block {
    genesis_block(btc_net(n))
}

pub const REGTEST_BITS: u32 = 0x207fffff;

/// The pinned "now" of the harness, in seconds: far enough after regtest genesis that
/// hundreds of blocks at +600 s stay in the past.
pub fn now_secs(n: Network) -> u64 {
    genesis(n).header.time as u64 + 100_000_000
}

// ---------------------------------------------------------------- scripts and addresses

pub fn p2pkh(b: u8) -> ScriptBuf {
    let mut v = vec![0x76, 0xa9, 0x14];
    v.extend([b; 20]);
    v.extend([0x88, 0xac]);
    ScriptBuf::from_bytes(v)
}
pub fn p2sh(b: u8) -> ScriptBuf {
    let mut v = vec![0xa9, 0x14];
    v.extend([b; 20]);
    v.push(0x87);
    ScriptBuf::from_bytes(v)
}
pub fn p2wpkh_bytes(h: [u8; 20]) -> ScriptBuf {
    let mut v = vec![0x00, 0x14];
    v.extend(h);
    ScriptBuf::from_bytes(v)
}
pub fn p2wpkh(b: u8) -> ScriptBuf {
    p2wpkh_bytes([b; 20])
}
pub fn p2wsh_bytes(h: [u8; 32]) -> ScriptBuf {
    let mut v = vec![0x00, 0x20];
    v.extend(h);
    ScriptBuf::from_bytes(v)
}
pub fn p2wsh(b: u8) -> ScriptBuf {
    p2wsh_bytes([b; 32])
}
pub fn p2tr(b: u8) -> ScriptBuf {
    let mut v = vec![0x51, 0x20];
    v.extend([b; 32]);
    ScriptBuf::from_bytes(v)
}
pub fn op_return() -> ScriptBuf {
    ScriptBuf::from_bytes(vec![0x6a, 0x04, 0xde, 0xad, 0xbe, 0xef])
}
/// A bare (non-address) script: OP_1 OP_DROP OP_1.
pub fn bare_script(tag: u8) -> ScriptBuf {
    ScriptBuf::from_bytes(vec![0x51, 0x75, 0x51, 0x01, tag, 0x75])
}
/// A script longer than 201 bytes (lands in the "large" UTXO map), not an address.
pub fn large_script(tag: u8) -> ScriptBuf {
    let mut v = vec![0x4c, 220];
    v.extend([tag; 220]);
    v.push(0x75);
    v.push(0x51);
    ScriptBuf::from_bytes(v)
}
/// A medium (26..=201 bytes) non-address script.
pub fn medium_script(tag: u8) -> ScriptBuf {
    let mut v = vec![0x4c, 60];
    v.extend([tag; 60]);
    v.push(0x75);
    v.push(0x51);
    ScriptBuf::from_bytes(v)
}

pub fn address_text(script: &ScriptBuf, n: Network) -> Option<String> {
    Address::from_script(script, btc_net(n)).ok().map(|a| a.to_string())
}

const BECH32: &[u8] = b"qpzry9x8gf2tvdw0s3jn54khce6mua7l";

/// For a P2WPKH script, the P2WSH script whose bech32 address text has the P2WPKH
/// address text as a proper prefix (the 32+6 data and checksum characters of the short
/// address re-read as witness program bits, padded with 'q').
pub fn colliding_p2wsh(short_script: &ScriptBuf, n: Network) -> ScriptBuf {
    let text = address_text(short_script, n).expect("p2wpkh address");
    let sep = text.rfind('1').unwrap();
    let data = &text.as_bytes()[sep + 1..]; // 'q' + 32 program chars + 6 checksum chars
    assert_eq!(data.len(), 39, "unexpected p2wpkh address length: {}", text);
    // characters after the version character, then 14 'q' (zero) characters: 52 in total
    let mut vals: Vec<u8> = data[1..]
        .iter()
        .map(|c| BECH32.iter().position(|x| x == c).unwrap() as u8)
        .collect();
    while vals.len() < 52 {
        vals.push(0);
    }
    // 52 * 5 = 260 bits = 32 bytes + 4 zero padding bits
    let mut bits: Vec<u8> = vec![];
    for v in &vals {
        for i in (0..5).rev() {
            bits.push((v >> i) & 1);
        }
    }
    let mut prog = [0u8; 32];
    for (i, byte) in prog.iter_mut().enumerate() {
        for j in 0..8 {
            *byte = (*byte << 1) | bits[i * 8 + j];
        }
    }
    assert!(bits[256..].iter().all(|b| *b == 0));
    let long = p2wsh_bytes(prog);
    let long_text = address_text(&long, n).unwrap();
    assert!(
        long_text.starts_with(&text) && long_text.len() > text.len(),
        "collision construction failed: {} vs {}",
        text,
        long_text
    );
    long
}

#[derive(Clone, Debug)]
pub struct Addr {
    pub name: &'static str,
    pub text: String,
    pub script: ScriptBuf,
}

/// The address book of a network. Index constants below.
#[derive(Clone, Debug)]
pub struct Book {
    pub net: Network,
    pub addrs: Vec<Addr>,
}

pub const A: usize = 0; // p2pkh
pub const B: usize = 1; // p2sh
pub const C: usize = 2; // p2wpkh
pub const D: usize = 3; // p2wsh
pub const E: usize = 4; // p2tr
pub const F: usize = 5; // p2pkh #2
pub const COL_SHORT: usize = 6; // p2wpkh whose text is a prefix of COL_LONG
pub const COL_LONG: usize = 7; // p2wsh
pub const G: usize = 8; // p2wpkh #2 (never funded unless a body says so)

impl Book {
    pub fn new(net: Network) -> Book {
        let col_short = p2wpkh(0x5c);
        let col_long = colliding_p2wsh(&col_short, net);
        let scripts: Vec<(&'static str, ScriptBuf)> = vec![
            ("A:p2pkh", p2pkh(0xa1)),
            ("B:p2sh", p2sh(0xb2)),
            ("C:p2wpkh", p2wpkh(0xc3)),
            ("D:p2wsh", p2wsh(0xd4)),
            ("E:p2tr", p2tr(0xe5)),
            ("F:p2pkh", p2pkh(0xf6)),
            ("COLS:p2wpkh", col_short),
            ("COLL:p2wsh", col_long),
            ("G:p2wpkh", p2wpkh(0x17)),
        ];
        Book {
            net,
            addrs: scripts
                .into_iter()
                .map(|(name, script)| Addr {
                    name,
                    text: address_text(&script, net).expect("book scripts are addresses"),
                    script,
                })
                .collect(),
        }
    }
    pub fn script(&self, i: usize) -> ScriptBuf {
        self.addrs[i].script.clone()
    }
    pub fn text(&self, i: usize) -> &str {
        &self.addrs[i].text
    }
}

// ---------------------------------------------------------------- transactions

pub fn coinbase_tx(salt: u64, outputs: Vec<(u64, ScriptBuf)>) -> Transaction {
    let mut sig = vec![0x08];
    sig.extend(salt.to_le_bytes());
    Transaction {
        version: Version(1),
        lock_time: LockTime::ZERO,
        input: vec![TxIn {
            previous_output: OutPoint::null(),
            script_sig: ScriptBuf::from_bytes(sig),
            sequence: Sequence(0xffffffff),
            witness: Witness::new(),
        }],
        output: outputs
            .into_iter()
            .map(|(v, s)| TxOut {
                value: Amount::from_sat(v),
                script_pubkey: s,
            })
            .collect(),
    }
}

/// A spending transaction. `witness_items` > 0 makes it a segwit transaction.
pub fn spend_tx(
    inputs: &[([u8; 32], u32)],
    outputs: Vec<(u64, ScriptBuf)>,
    witness_items: usize,
    tag: u8,
) -> Transaction {
    Transaction {
        version: Version(2),
        lock_time: LockTime::ZERO,
        input: inputs
            .iter()
            .map(|(txid, vout)| {
                let mut w = Witness::new();
                for k in 0..witness_items {
                    w.push(vec![tag.wrapping_add(k as u8); 33 + 39 * k]);
                }
                TxIn {
                    previous_output: OutPoint {
                        txid: Txid::from_byte_array(*txid),
                        vout: *vout,
                    },
                    script_sig: if witness_items == 0 {
                        ScriptBuf::from_bytes(vec![0x02, tag, tag])
                    } else {
                        ScriptBuf::new()
                    },
                    sequence: Sequence(0xfffffffe),
                    witness: w,
                }
            })
            .collect(),
        output: outputs
            .into_iter()
            .map(|(v, s)| TxOut {
                value: Amount::from_sat(v),
                script_pubkey: s,
            })
            .collect(),
    }
}

pub fn txid_of(tx: &Transaction) -> [u8; 32] {
    tx.compute_txid().to_byte_array()
}

// ---------------------------------------------------------------- blocks

thread_local! {
    // header bytes without nonce -> nonce (mining memo; replays re-create the same blocks)
    static MINED: RefCell<HashMap<[u8; 76], u32>> = RefCell::new(HashMap::new());
}

pub fn merkle_root(txs: &[Transaction]) -> TxMerkleNode {
    let hashes = txs.iter().map(|t| t.compute_txid().to_raw_hash());
    bitcoin::merkle_tree::calculate_root(hashes)
        .map(TxMerkleNode::from_raw_hash)
        .unwrap_or_else(|| TxMerkleNode::from_byte_array([0; 32]))
}

/// Mines `header` (regtest-style target taken from `header.bits`). Only call with easy bits.
pub fn mine(header: &mut Header) {
    use bitcoin::consensus::Encodable;
    let mut raw = vec![];
    header.consensus_encode(&mut raw).unwrap();
    let key: [u8; 76] = raw[..76].try_into().unwrap();
    if let Some(n) = MINED.with(|m| m.borrow().get(&key).copied()) {
        header.nonce = n;
        return;
    }
    let target = header.target();
    header.nonce = 0;
    while header.validate_pow(target).is_err() {
        header.nonce += 1;
    }
    MINED.with(|m| m.borrow_mut().insert(key, header.nonce));
}

/// Makes the header *fail* its own proof of work (for negative tests).
pub fn unmine(header: &mut Header) {
    let target = header.target();
    header.nonce = 0;
    while header.validate_pow(target).is_ok() {
        header.nonce += 1;
    }
}

pub fn make_header(prev: BlockHash, time: u32, bits: u32, txs: &[Transaction]) -> Header {
    Header {
        version: BlockVersion::from_consensus(0x2000_0000),
        prev_blockhash: prev,
        merkle_root: merkle_root(txs),
        time,
        bits: CompactTarget::from_consensus(bits),
        nonce: 0,
    }
}

/// A regtest block on `prev` with the given transactions, mined.
pub fn regtest_block(prev: &Header, time: u32, txs: Vec<Transaction>) -> Block {
    let mut header = make_header(prev.block_hash(), time, REGTEST_BITS, &txs);
    mine(&mut header);
    Block { header, txdata: txs }
}

/// A block for mainnet/testnet (not mined: enters through `unstable_blocks::push`).
pub fn unmined_block(prev: &Header, time: u32, bits: u32, txs: Vec<Transaction>) -> Block {
    let header = make_header(prev.block_hash(), time, bits, &txs);
    Block { header, txdata: txs }
}

pub fn block_bytes(b: &Block) -> Vec<u8> {
    bitcoin::consensus::serialize(b)
}
pub fn header_bytes(h: &Header) -> Vec<u8> {
    bitcoin::consensus::serialize(h)
}
pub fn hash_of(h: &Header) -> [u8; 32] {
    h.block_hash().to_byte_array()
}

//! C11 — header acceptance equals the Bitcoin consensus header rules.
use crate::engine::Out;
use crate::factory;
use crate::report::Report;
use crate::util::fp64;
use bitcoin::block::{Header, Version};
use bitcoin::hashes::Hash;
use bitcoin::{BlockHash, CompactTarget, Network as BtcNet, Target, TxMerkleNode};
use ic_btc_validation::{HeaderStore, HeaderValidator, ValidateHeaderError};
use num_bigint::BigUint;
use serde_json::json;
use std::collections::HashMap;
use std::time::Duration;

const INTERVAL: u32 = 2016;
const TARGET_TIMESPAN: u64 = 14 * 24 * 60 * 60;

// ------------------------------------------------------------------ reference rules

fn limit_bits(net: BtcNet) -> u32 {
    match net {
        BtcNet::Regtest => 0x207fffff,
        _ => 0x1d00ffff,
    }
}

/// Core's arith_uint256::SetCompact (sign bit ignored for the magnitudes used here).
fn decode_compact(bits: u32) -> BigUint {
    let exp = bits >> 24;
    let mant = BigUint::from(bits & 0x007f_ffff);
    if exp <= 3 {
        mant >> (8 * (3 - exp) as usize)
    } else {
        mant << (8 * (exp - 3) as usize)
    }
}

/// Core's arith_uint256::GetCompact.
fn encode_compact(t: &BigUint) -> u32 {
    let mut size = ((t.bits() + 7) / 8) as u32;
    let mut compact: u64 = if size <= 3 {
        let low = t.iter_u64_digits().next().unwrap_or(0);
        low << (8 * (3 - size))
    } else {
        let shifted = t >> (8 * (size - 3) as usize);
        shifted.iter_u64_digits().next().unwrap_or(0)
    };
    if compact & 0x0080_0000 != 0 {
        compact >>= 8;
        size += 1;
    }
    (compact as u32) | (size << 24)
}

fn allows_min_difficulty(net: BtcNet) -> bool {
    !matches!(net, BtcNet::Bitcoin)
}

/// GetNextWorkRequired of Bitcoin Core (BIP94 base on testnet4), over a chain indexed by height.
fn ref_required_bits(chain: &[Header], net: BtcNet, new_time: u32) -> u32 {
    let last = chain.last().unwrap();
    let last_h = chain.len() as u32 - 1;
    let h = last_h + 1;
    let limit = limit_bits(net);
    if h % INTERVAL != 0 {
        if allows_min_difficulty(net) {
            if new_time as u64 > last.time as u64 + 1200 {
                return limit;
            }
            let mut idx = last_h;
            while idx > 0 && idx % INTERVAL != 0 && chain[idx as usize].bits.to_consensus() == limit {
                idx -= 1;
            }
            return chain[idx as usize].bits.to_consensus();
        }
        return last.bits.to_consensus();
    }
    if net == BtcNet::Regtest {
        return last.bits.to_consensus();
    }
    let first = &chain[(h - INTERVAL) as usize];
    let mut span = last.time as i64 - first.time as i64;
    let lo = (TARGET_TIMESPAN / 4) as i64;
    let hi = (TARGET_TIMESPAN * 4) as i64;
    if span < lo {
        span = lo;
    }
    if span > hi {
        span = hi;
    }
    let base_bits = if net == BtcNet::Testnet4 {
        first.bits.to_consensus()
    } else {
        last.bits.to_consensus()
    };
    let pow_limit = decode_compact(limit);
    let mut new = decode_compact(base_bits) * BigUint::from(span as u64) / BigUint::from(TARGET_TIMESPAN);
    if new > pow_limit {
        new = pow_limit;
    }
    encode_compact(&new)
}

fn ref_mtp(chain: &[Header]) -> u32 {
    let n = chain.len();
    let mut t: Vec<u32> = chain[n.saturating_sub(11)..].iter().map(|h| h.time).collect();
    t.sort();
    t[t.len() / 2]
}

/// The timestamp rule: None = fine, Some(reason).
fn ref_time_verdict(chain: &[Header], cand_time: u32, now: u64) -> Option<&'static str> {
    if cand_time as u64 > now + 7200 {
        return Some("future");
    }
    if cand_time <= ref_mtp(chain) {
        return Some("old");
    }
    None
}

// ------------------------------------------------------------------ synthetic chains

struct Store {
    headers: Vec<Header>,
    by_hash: HashMap<BlockHash, usize>,
}

impl Store {
    fn new(headers: Vec<Header>) -> Self {
        let mut s = Store {
            headers,
            by_hash: HashMap::new(),
        };
        s.relink(1);
        s
    }
    /// Recomputes prev hashes and the hash index from height `from` on.
    fn relink(&mut self, from: usize) {
        let from = from.max(1);
        for i in from..self.headers.len() {
            let ph = self.headers[i - 1].block_hash();
            self.headers[i].prev_blockhash = ph;
        }
        // index: rebuild lazily for the changed suffix (earlier entries stay valid)
        self.by_hash.retain(|_, v| *v < from.saturating_sub(1));
        for i in from.saturating_sub(1)..self.headers.len() {
            self.by_hash.insert(self.headers[i].block_hash(), i);
        }
    }
}

impl HeaderStore for &Store {
    fn get_with_block_hash(&self, hash: &BlockHash) -> Option<Header> {
        self.by_hash.get(hash).map(|i| self.headers[*i])
    }
    fn get_with_height(&self, height: u32) -> Option<Header> {
        self.headers.get(height as usize).copied()
    }
    fn height(&self) -> u32 {
        self.headers.len() as u32 - 1
    }
}

fn hdr(time: u32, bits: u32, salt: u32) -> Header {
    Header {
        version: Version::from_consensus(0x2000_0000),
        prev_blockhash: BlockHash::all_zeros(),
        merkle_root: TxMerkleNode::from_byte_array([(salt % 251) as u8; 32]),
        time,
        bits: CompactTarget::from_consensus(bits),
        nonce: salt,
    }
}

fn base_chain(len: usize, real_bits: u32) -> Vec<Header> {
    (0..len).map(|i| hdr(1_600_000_000 + 600 * i as u32, real_bits, i as u32)).collect()
}

fn nets() -> Vec<(BtcNet, u32)> {
    // (network, a realistic non-limit bits value)
    vec![
        (BtcNet::Bitcoin, 0x1b0404cb),
        (BtcNet::Testnet4, 0x1c00ffff),
        // testnet3: the minimum-difficulty exception without BIP94 (retarget from the last block's bits)
        (BtcNet::Testnet, 0x1c00ffff),
        (BtcNet::Regtest, 0x207fffff),
    ]
}

fn check_target(store: &Store, net: BtcNet, cand_time: u32, out: &mut Out, ctx: serde_json::Value) {
    let prev = *store.headers.last().unwrap();
    let prev_h = store.headers.len() as u32 - 1;
    let v = HeaderValidator::new(store, net);
    let got = v.verif_next_target(&prev, prev_h, cand_time);
    let want_bits = ref_required_bits(&store.headers, net, cand_time);
    let want = Target::from_compact(CompactTarget::from_consensus(want_bits));
    out.states += 1;
    out.outcomes.insert(fp64(&want_bits.to_le_bytes()));
    if got != want {
        out.set_history(ctx.clone());
        out.violation(
            "required-target",
            None,
            json!({"expected_bits": format!("{:08x}", want_bits), "observed_bits": format!("{:08x}", got.to_compact_lossy().to_consensus()), "ctx": ctx}),
        );
    } else {
        out.count("required_targets_checked");
    }
}

fn target_rules(out: &mut Out, quick: bool) {
    for (net, real) in nets() {
        let limit = limit_bits(net);
        for period in 1..=2u32 {
            for pos in [0u32, 1, 2, 2015] {
                let cand_h = period * INTERVAL + pos;
                let mut store = Store::new(base_chain(cand_h as usize, real));
                let n = store.headers.len();
                // tail patterns of the last 4 headers: limit / real bits
                for pat in 0..16u32 {
                    let mut walk = 0;
                    for k in 0..4usize {
                        let b = if pat & (1 << k) != 0 { limit } else { real };
                        store.headers[n - 1 - k].bits = CompactTarget::from_consensus(b);
                    }
                    for k in 0..4usize {
                        if pat & (1 << k) != 0 {
                            walk += 1;
                        } else {
                            break;
                        }
                    }
                    store.relink(n - 4);
                    let pt = store.headers[n - 1].time;
                    for gap in [0u32, 1, 600, 1199, 1200, 1201, 7200] {
                        check_target(&store, net, pt + gap, out, json!({"family": "tail", "net": net.to_string(), "candidate_height": cand_h, "tail_pattern": pat, "gap": gap}));
                    }
                    // a candidate dated before its parent (legal as long as it is later than
                    // the median): the 20-minute exception looks at "later than", not at the
                    // distance
                    for back in [1u32, 600, 1199, 1200, 1201, 7200] {
                        check_target(&store, net, pt - back, out, json!({"family": "tail", "net": net.to_string(), "candidate_height": cand_h, "tail_pattern": pat, "gap": -(back as i64)}));
                        out.count("targets_for_candidates_dated_before_their_parent");
                    }
                    out.count(&format!("walk_backs_of_length_{}", walk));
                }
                // a run of limit-bits headers reaching back to the period boundary
                if pos == 2 || pos == 1 {
                    for k in 0..=(pos as usize) {
                        store.headers[n - 1 - k].bits = CompactTarget::from_consensus(limit);
                    }
                    store.relink(n - 1 - pos as usize);
                    let pt = store.headers[n - 1].time;
                    check_target(&store, net, pt + 600, out, json!({"family": "walk-to-period-boundary", "net": net.to_string(), "candidate_height": cand_h}));
                    out.count("walk_backs_reaching_a_period_boundary");
                }
            }
            // retarget boundary: period timespans and first-bits != last-bits
            let cand_h = period * INTERVAL;
            let t = TARGET_TIMESPAN as i64;
            let spans: Vec<i64> = vec![-1000, 0, t / 4 - 1, t / 4, t / 4 + 1, t - 1, t, t + 1, 4 * t - 1, 4 * t, 4 * t + 1, t / 2, 3 * t];
            let first_bits_variants: Vec<u32> = if quick { vec![real, 0x1c0ffff0] } else { vec![real, 0x1c0ffff0, limit, 0x1b00ffff] };
            for fb in &first_bits_variants {
                let mut store = Store::new(base_chain(cand_h as usize, real));
                let n = store.headers.len();
                let first_idx = (cand_h - INTERVAL) as usize;
                if net != BtcNet::Regtest {
                    store.headers[first_idx].bits = CompactTarget::from_consensus(*fb);
                }
                store.relink(first_idx.max(1));
                let ft = store.headers[first_idx].time as i64;
                for span in &spans {
                    let lt = ft + span;
                    if lt < 0 || lt > u32::MAX as i64 {
                        continue;
                    }
                    store.headers[n - 1].time = lt as u32;
                    store.relink(n - 1);
                    for lb in [real, 0x1b0404cb, limit] {
                        if net == BtcNet::Regtest && lb != limit {
                            continue;
                        }
                        store.headers[n - 1].bits = CompactTarget::from_consensus(lb);
                        store.relink(n - 1);
                        check_target(&store, net, (lt as u32).saturating_add(600), out, json!({"family": "retarget", "net": net.to_string(), "candidate_height": cand_h, "timespan": span, "first_bits": format!("{:08x}", fb), "last_bits": format!("{:08x}", lb)}));
                        if *span <= t / 4 {
                            out.count("retarget_clamped_low");
                        }
                        if *span >= 4 * t {
                            out.count("retarget_clamped_high");
                        }
                    }
                }
            }
        }
        // walk back all the way to genesis (short chains of limit bits)
        if allows_min_difficulty(net) {
            for len in 1..=6usize {
                let store = Store::new(base_chain(len, limit));
                let pt = store.headers[len - 1].time;
                for gap in [600u32, 1201] {
                    check_target(&store, net, pt + gap, out, json!({"family": "walk-to-genesis", "net": net.to_string(), "chain_len": len, "gap": gap}));
                }
                out.count("walk_backs_reaching_genesis");
            }
        }
    }
}

fn timestamp_rules(out: &mut Out) {
    let now: u64 = 1_700_000_000;
    for (net, real) in nets() {
        for len in 1..=14usize {
            let patterns: Vec<(&str, Box<dyn Fn(usize) -> u32>)> = vec![
                ("increasing", Box::new(|i| 1_600_000_000 + 600 * i as u32)),
                ("constant", Box::new(|_| 1_600_000_000)),
                ("one high outlier", Box::new(|i| if i % 5 == 2 { 1_650_000_000 } else { 1_600_000_000 + 600 * i as u32 })),
                ("one low outlier", Box::new(|i| if i % 5 == 3 { 1_500_000_000 } else { 1_600_000_000 + 600 * i as u32 })),
                ("decreasing", Box::new(|i| 1_600_100_000 - 600 * i as u32)),
                ("near now", Box::new(move |i| (now as u32) - 6000 + 600 * i as u32)),
            ];
            for (pname, f) in patterns {
                let headers: Vec<Header> = (0..len).map(|i| hdr(f(i), real, i as u32)).collect();
                let store = Store::new(headers);
                let mtp = ref_mtp(&store.headers);
                let cands: Vec<u32> = vec![mtp.saturating_sub(1), mtp, mtp + 1, (now + 7199) as u32, (now + 7200) as u32, (now + 7201) as u32, 0, u32::MAX];
                for ct in cands {
                    let mut c = hdr(ct, real, 999);
                    c.prev_blockhash = store.headers[len - 1].block_hash();
                    let v = HeaderValidator::new(&store, net);
                    let got = v.verif_timestamp_check(&c, Duration::from_secs(now));
                    let want = ref_time_verdict(&store.headers, ct, now);
                    out.states += 1;
                    let ok = match (&got, want) {
                        (Ok(()), None) => true,
                        (Err(ValidateHeaderError::HeaderIsOld), Some(_)) => ref_time_verdict(&store.headers, ct, u64::MAX / 2) == Some("old") || want == Some("old"),
                        (Err(ValidateHeaderError::HeaderIsTooFarInFuture { .. }), Some("future")) => true,
                        _ => false,
                    };
                    if !ok {
                        out.set_history(json!({"family": "timestamp", "net": net.to_string(), "chain_len": len, "pattern": pname, "candidate_time": ct}));
                        out.violation(
                            "timestamp-rule",
                            None,
                            json!({"mtp": mtp, "now": now, "candidate_time": ct, "expected": want, "observed": format!("{:?}", got)}),
                        );
                    } else {
                        out.count(match want {
                            None => "timestamps_accepted",
                            Some("old") => "timestamps_rejected_old",
                            _ => "timestamps_rejected_future",
                        });
                        if len < 11 {
                            out.count("timestamp_checks_with_fewer_than_11_ancestors");
                        }
                    }
                }
            }
        }
    }
}

/// End to end on regtest (headers can be mined): validate_header accepts iff the composed
/// reference predicate holds; on mainnet/testnet every (unmined) candidate is rejected.
fn end_to_end(out: &mut Out) {
    let now: u64 = 1_700_000_000;
    for len in [1usize, 2, 5, 12, 2016, 2017] {
        let mut headers: Vec<Header> = (0..len).map(|i| hdr(1_600_000_000 + 600 * i as u32, 0x207fffff, i as u32)).collect();
        // regtest chain: headers need not be mined to serve as ancestors
        headers[0].time = 1_600_000_000;
        let store = Store::new(headers);
        let parent = store.headers[len - 1];
        let mtp = ref_mtp(&store.headers);
        for ct in [mtp.saturating_sub(1), mtp, mtp + 1, parent.time + 600, (now + 7200) as u32, (now + 7201) as u32] {
            for bits in [0x207fffffu32, 0x207ffffe, 0x1f7fffff, 0x2100ffff, 0x1d00ffff] {
                for known_parent in [true, false] {
                    for mined in [true, false] {
                        let mut c = hdr(ct, bits, 4242);
                        c.prev_blockhash = if known_parent { parent.block_hash() } else { BlockHash::from_byte_array([9; 32]) };
                        let declared = decode_compact(bits);
                        let max = decode_compact(0x207fffff);
                        // mining is only feasible for easy targets
                        let can_mine = declared >= decode_compact(0x1f7fffff);
                        if mined {
                            if !can_mine {
                                continue;
                            }
                            let t = c.target();
                            c.nonce = 0;
                            while c.validate_pow(t).is_err() {
                                c.nonce += 1;
                            }
                        } else {
                            let t = c.target();
                            c.nonce = 0;
                            let mut guard = 0;
                            while c.validate_pow(t).is_ok() && guard < 1000 {
                                c.nonce += 1;
                                guard += 1;
                            }
                        }
                        let hash_ok = {
                            let h = BigUint::from_bytes_le(&c.block_hash().to_byte_array());
                            h <= declared
                        };
                        let required = decode_compact(ref_required_bits(&store.headers, BtcNet::Regtest, ct));
                        let want = known_parent
                            && ref_time_verdict(&store.headers, ct, now).is_none()
                            && declared <= max
                            && hash_ok
                            && declared == required;
                        let v = HeaderValidator::new(&store, BtcNet::Regtest);
                        let got = v.validate_header(&c, Duration::from_secs(now));
                        out.states += 1;
                        if got.is_ok() != want {
                            out.set_history(json!({"family": "end-to-end", "chain_len": len, "time": ct, "bits": format!("{:08x}", bits), "parent_known": known_parent, "mined": mined}));
                            out.violation("header-acceptance", None, json!({"expected_accept": want, "observed": format!("{:?}", got)}));
                        } else {
                            out.count(if want { "headers_accepted" } else { "headers_rejected" });
                            if let Err(e) = &got {
                                out.count(&format!("rejected: {}", format!("{:?}", e).split([' ', '{']).next().unwrap_or("")));
                            }
                        }
                    }
                }
            }
        }
    }
    // mainnet / testnet: unmined candidates are never accepted
    for (net, real) in [(BtcNet::Bitcoin, 0x1b0404cbu32), (BtcNet::Testnet4, 0x1c00ffff), (BtcNet::Testnet, 0x1c00ffff)] {
        let store = Store::new(base_chain(20, real));
        let parent = store.headers[19];
        for ct in [parent.time + 1, parent.time + 600, parent.time + 1201] {
            for bits in [real, 0x1d00ffff, 0x1c00ffff] {
                let mut c = hdr(ct, bits, 777);
                c.prev_blockhash = parent.block_hash();
                let v = HeaderValidator::new(&store, net);
                out.states += 1;
                if v.validate_header(&c, Duration::from_secs(now)).is_ok() {
                    out.set_history(json!({"family": "unmined", "net": net.to_string()}));
                    out.violation("unmined-header-accepted", None, json!({"bits": format!("{:08x}", bits)}));
                } else {
                    out.count("unmined_headers_rejected");
                }
            }
        }
    }
}

// ------------------------------------------------------------------ the canister's adaptor
// The rules above are evaluated "at that height" over the chain the canister hands to the
// validator (stable header store + unstable chain + announced headers). This part explores
// tree states with announced headers and compares that view with the reference chain.

pub struct StoreView;

#[derive(Default)]
pub struct NoMon;

impl crate::chain::Oracle for StoreView {
    type Mon = NoMon;
    fn prop(&self) -> &'static str {
        "C11"
    }
    fn on_state(&self, w: &mut crate::world::World, _m: &mut NoMon, _hist: &[crate::chain::Ev], out: &mut Out) {
        use crate::refmodel::H32;
        let tree: Vec<H32> = w.tree_hashes();
        let sh = w.stable_height();
        let dump = crate::props::c20::dump_unstable().ok();
        let retained: std::collections::HashSet<H32> = dump.map(|d| d.hdr_by_hash.keys().copied().collect()).unwrap_or_default();
        // candidate parents: every tree block, every retained announced header
        let mut parents: Vec<(H32, Vec<Header>, bool)> = vec![]; // (hash, chain genesis..=parent as headers, is announced)
        let hdr_of = |w: &crate::world::World, h: &H32| -> Header { w.blocks.get(h).unwrap().header };
        for t in &tree {
            if !w.refm.has(t) {
                continue;
            }
            let chain: Vec<Header> = w.refm.chain_to(t).iter().map(|h| hdr_of(w, h)).collect();
            parents.push((*t, chain, false));
        }
        for a in w.announced.clone() {
            if !retained.contains(&a.hash) {
                continue;
            }
            // walk back through announced headers to a tree block
            let mut path = vec![a.header];
            let mut cur = a.prev;
            let mut ok = false;
            for _ in 0..16 {
                if tree.contains(&cur) {
                    ok = true;
                    break;
                }
                match w.announced.iter().find(|x| x.hash == cur && retained.contains(&x.hash)) {
                    Some(p) => {
                        path.push(p.header);
                        cur = p.prev;
                    }
                    None => break,
                }
            }
            if !ok || !w.refm.has(&cur) {
                continue; // header of a discarded fork: the validator has no view for it
            }
            let mut chain: Vec<Header> = w.refm.chain_to(&cur).iter().map(|h| hdr_of(w, h)).collect();
            path.reverse();
            chain.extend(path);
            parents.push((a.hash, chain, true));
        }
        for (ph, chain, announced) in parents {
            let parent = *chain.last().unwrap();
            // any header extending the parent
            let cand = Header {
                version: Version::from_consensus(0x2000_0000),
                prev_blockhash: parent.block_hash(),
                merkle_root: TxMerkleNode::from_byte_array([0x42; 32]),
                time: parent.time + 600,
                bits: parent.bits,
                nonce: 12345,
            };
            for with_next in [true, false] {
                if announced && !with_next {
                    continue;
                }
                out.transitions += 1;
                let r = crate::util::guarded(|| ic_btc_canister::verif_hooks::header_store_view(&cand, with_next));
                let ctx = json!({"parent": crate::util::short(&ph), "parent_is_announced_header": announced, "with_next_block_headers": with_next,
                                 "stable_height": sh, "expected_height": chain.len() - 1});
                match r {
                    Err(p) => out.violation("store-view-trap", None, json!({"panic": p, "ctx": ctx})),
                    Ok(Err(e)) => out.violation("store-view-refused", None, json!({"error": e, "ctx": ctx})),
                    Ok(Ok((height, by_height, found_by_hash, initial))) => {
                        let want_h = chain.len() as u32 - 1;
                        let mut bad = vec![];
                        if height != want_h {
                            bad.push(format!("height() = {} but the parent is at height {}", height, want_h));
                        }
                        for (i, h) in chain.iter().enumerate() {
                            if by_height.get(i).cloned().flatten() != Some(*h) {
                                bad.push(format!("get_with_height({}) is not the chain's header", i));
                                break;
                            }
                        }
                        if by_height.get(chain.len()).cloned().flatten().is_some() && height == want_h {
                            bad.push("a header is served above the tip".to_string());
                        }
                        if !found_by_hash {
                            bad.push("a header served by height is not found by its hash".to_string());
                        }
                        if initial != chain[0].block_hash() {
                            bad.push("initial hash is not the genesis hash".to_string());
                        }
                        if !bad.is_empty() {
                            out.violation("store-view", None, json!({"problems": bad, "ctx": ctx}));
                        } else {
                            out.count("store_views_checked");
                            if announced {
                                out.count("store_views_on_announced_headers");
                            }
                            if sh > 0 {
                                out.count("store_views_spanning_stable_and_unstable");
                            }
                        }
                    }
                }
            }
        }
        out.distinct.insert(crate::world::full_fingerprint() as u64);
    }
}

fn store_adaptor(rep: &mut Report, quick: bool) {
    use crate::chain::{Alphabet, ChainModel};
    use crate::engine::{explore, Limits};
    use crate::world::WorldCfg;
    let parts: Vec<(u32, usize, Vec<u8>, usize)> = if quick {
        vec![(1, 3, vec![1, 2, 3], 2), (2, 4, vec![2], 1)]
    } else {
        vec![(1, 4, vec![1, 2, 3], 2), (2, 5, vec![1, 3], 2), (3, 5, vec![2, 4], 1)]
    };
    for (theta, n, lens, mh) in parts {
        let mut alpha = Alphabet::tree(n, &[1]);
        alpha.hdr_lens = lens.clone();
        alpha.max_hdr_events = mh;
        let m = ChainModel { cfg: WorldCfg::regtest(theta), alpha, oracle: StoreView };
        let e = explore(&m, &Limits::new(2, if quick { 300 } else { 3000 }));
        rep.absorb(
            &format!("STORE-VIEW theta={} n={} announced chains {:?} x{}", theta, n, lens, mh),
            e,
            json!({"threshold": theta, "max_blocks": n, "announced_chain_lengths": lens, "max_header_events": mh}),
        );
    }
}

pub fn run(tier: &str) -> i32 {
    let mut rep = Report::new("C11", tier, "exploration");
    let quick = tier == "quick";
    let mut out = Out::default();
    target_rules(&mut out, quick);
    timestamp_rules(&mut out);
    end_to_end(&mut out);
    // compact encoding self-check against rust-bitcoin on the values used
    for bits in [0x1d00ffffu32, 0x1b0404cb, 0x207fffff, 0x1c00ffff, 0x1c0ffff0] {
        let t = decode_compact(bits);
        if encode_compact(&t) != bits {
            out.violation("machinery:compact-roundtrip", None, json!({"bits": format!("{:08x}", bits)}));
        }
    }
    out.leaves = 1;
    out.distinct = out.outcomes.clone();
    out.samples.push(json!({"family": "retarget", "net": "testnet4", "candidate_height": 2016, "timespan": "T/4-1",
        "first_bits": "1c0ffff0", "last_bits": "1c00ffff", "expected": "BIP94: base = first block of the period, clamp to T/4"}));
    out.samples.push(json!({"family": "tail", "net": "regtest", "candidate_height": 4033, "tail_pattern": 7, "gap": 1199,
        "expected": "walk back over 3 limit-bits headers"}));
    rep.out.merge(out);
    store_adaptor(&mut rep, quick);
    rep.evaluations = rep.out.states;
    let _ = factory::REGTEST_BITS;
    rep.rule = "network in {mainnet, testnet4, testnet3, regtest} x candidate position (h mod 2016 in {0,1,2,2015}) in periods 1 and 2 x {limit, real}^4 bits of the last four headers x gap to parent in {0,1,600,1199,1200,1201,7200} and {-1,-600,-1199,-1200,-1201,-7200} (candidate dated before its parent); retarget boundary x 13 period timespans (negative, 0, around T/4, T, 4T) x first-bits variants (BIP94) x last-bits variants; walk-backs to a period boundary and to genesis; timestamp rule x chain lengths 1..14 x 6 timestamp patterns x 8 candidate times; regtest end-to-end (mined / unmined, known / unknown parent, 5 declared targets, 6 times, 6 chain lengths); and, for the height the rules are evaluated at: in every state of TREE histories with announced-header chains, for every possible parent (tree block or retained announced header) the chain view handed to the validator (height, header at every height across stable store / unstable chain / announced headers, lookup by hash, initial hash) against the reference chain; distinct = distinct required targets / states".into();
    rep.bounds = json!({"tier": tier});
    rep.assume("the accept side of the composed predicate on mainnet/testnet needs real proof of work and is not reached; it shares the composition code with regtest and its network-specific parts are compared through the rule wrappers");
    rep.assume("reference: an independent re-implementation of Core's GetNextWorkRequired / CalculateNextWorkRequired (BIP94 base on testnet4) and median-time-past, with its own compact-target arithmetic on big integers");
    rep.floor("required_targets_checked", 2000);
    rep.floor("retarget_clamped_low", 20);
    rep.floor("retarget_clamped_high", 20);
    rep.floor("walk_backs_reaching_genesis", 5);
    rep.floor("walk_backs_reaching_a_period_boundary", 5);
    rep.floor("timestamps_rejected_old", 100);
    rep.floor("timestamps_rejected_future", 100);
    rep.floor("timestamp_checks_with_fewer_than_11_ancestors", 100);
    rep.floor("headers_accepted", 5);
    rep.floor("headers_rejected", 100);
    rep.floor("store_views_on_announced_headers", 100);
    rep.floor("store_views_spanning_stable_and_unstable", 100);
    rep.finish()
}

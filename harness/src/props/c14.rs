//! C14 — data endpoints are gated by access flag, network and sync status.
use crate::chain::*;
use crate::engine::{explore, Limits, Out};
use crate::props::c20::check_bookkeeping;
use crate::refmodel::H32;
use crate::report::Report;
use crate::util::{classify_refusal, fp64, guarded, Refusal};
use crate::world::{World, WorldCfg};
use ic_btc_interface::{
    GetBalanceRequest, GetBlockHeadersRequest, GetCurrentFeePercentilesRequest, GetUtxosRequest,
    Network, SendTransactionRequest,
};
use serde_json::json;
use std::collections::HashSet;
use std::future::Future;
use std::task::{Context, Poll, Waker};

pub struct C14;

#[derive(Default)]
pub struct Mon;

const ENDPOINTS: [&str; 7] = [
    "get_utxos",
    "get_utxos_query",
    "get_balance",
    "get_balance_query",
    "get_block_headers",
    "get_current_fee_percentiles",
    "send_transaction",
];

/// Calls a data endpoint with a benign request; Ok(()) = it answered (value or a
/// request-level error), Err(refusal) = guard refusal / trap.
fn call(w: &World, ep: &str, net: Network, lower: bool) -> Result<(), Refusal> {
    let a = w.book.text(0).to_string();
    let n = crate::world::net_req_spelled(net, lower);
    let r = match ep {
        "get_utxos" => guarded(|| {
            let _ = ic_btc_canister::get_utxos(GetUtxosRequest { address: a, network: n, filter: None });
        }),
        "get_utxos_query" => guarded(|| {
            let _ = ic_btc_canister::get_utxos_query(GetUtxosRequest { address: a, network: n, filter: None });
        }),
        "get_balance" => guarded(|| {
            let _ = ic_btc_canister::get_balance(GetBalanceRequest { address: a, network: n, min_confirmations: None });
        }),
        "get_balance_query" => guarded(|| {
            let _ = ic_btc_canister::get_balance_query(GetBalanceRequest { address: a, network: n, min_confirmations: None });
        }),
        "get_block_headers" => guarded(|| {
            let _ = ic_btc_canister::get_block_headers(GetBlockHeadersRequest { start_height: 0, end_height: None, network: n });
        }),
        "get_current_fee_percentiles" => guarded(|| {
            let _ = ic_btc_canister::get_current_fee_percentiles(GetCurrentFeePercentilesRequest { network: n });
        }),
        "send_transaction" => guarded(|| {
            // an undecodable payload: the guards run first, then MalformedTransaction
            let mut fut = Box::pin(ic_btc_canister::send_transaction(SendTransactionRequest {
                transaction: vec![1, 2, 3],
                network: n,
            }));
            let mut cx = Context::from_waker(Waker::noop());
            match fut.as_mut().poll(&mut cx) {
                Poll::Ready(_) => {}
                Poll::Pending => panic!("send_transaction pending"),
            }
        }),
        _ => unreachable!(),
    };
    r.map_err(|p| classify_refusal(&p))
}

impl Oracle for C14 {
    fn settle(&self, w: &mut World) {
        // an answered fee request fills caches; asked in every state as part of the step, so
        // that the endpoint sweep below finds a state it does not change
        let _ = w.fee_percentiles();
    }
    type Mon = Mon;
    fn prop(&self) -> &'static str {
        "C14"
    }
    fn on_state(&self, w: &mut World, _mon: &mut Mon, _hist: &[Ev], out: &mut Out) {
        let anchor = w.anchor();
        if !w.refm.has(&anchor) {
            out.violation("anchor-unknown", None, json!({}));
            return;
        }
        out.distinct.insert(fp64(&crate::world::state_bytes(true)));
        // the structural checks on announced headers (C20's clauses) hold here too
        check_bookkeeping(w, out);
        let best = w.refm.best_chain(&anchor);
        let best_h = w.refm.get(best.last().unwrap()).height;
        let sh = w.stable_height();
        let tree: HashSet<H32> = w.tree_hashes().into_iter().collect();
        let ann: std::collections::HashMap<H32, (H32, u32)> =
            w.announced.iter().map(|a| (a.hash, (a.prev, a.height))).collect();
        let connected = |mut h: H32| -> bool {
            let mut guard = 0;
            loop {
                guard += 1;
                if guard > 64 {
                    return false;
                }
                match ann.get(&h) {
                    Some((prev, _)) => {
                        if tree.contains(prev) {
                            return true;
                        }
                        h = *prev;
                    }
                    None => return false,
                }
            }
        };
        let mut max_must: u32 = 0;
        let mut max_may: u32 = 0;
        for a in &w.announced {
            if w.refm.has(&a.hash) || a.height <= sh {
                continue; // block arrived, or the stable height reached it
            }
            max_may = max_may.max(a.height);
            if connected(a.hash) {
                max_must = max_must.max(a.height);
            }
        }
        // a validated announced header stays pending until its block arrives or the stable
        // height reaches it: the blocks of *other* branches do not remove it
        if let Ok(d) = crate::props::c20::dump_unstable() {
            for a in &w.announced {
                if w.refm.has(&a.hash) || a.height <= sh || !connected(a.hash) {
                    continue;
                }
                if d.hdr_by_hash.contains_key(&a.hash) {
                    out.count("pending_connected_headers_found_retained");
                } else {
                    out.violation(
                        "announced-header-lost",
                        None,
                        json!({"height": a.height, "stable_height": sh, "best_height": best_h,
                               "note": "validated when announced, its block has not arrived, its height is above the stable height and its chain still attaches to the tree"}),
                    );
                }
            }
        }
        let must_refuse_sync = max_must > best_h + 2;
        let may_refuse_sync = max_may > best_h + 2;
        if max_must == best_h + 2 {
            out.count("states_at_distance_exactly_2");
        }
        if max_must == best_h + 3 {
            out.count("states_at_distance_exactly_3");
        }
        if must_refuse_sync != may_refuse_sync {
            out.count("states_with_undecided_sync_status");
        }
        let cfg = w.cfg.clone();
        let fp_before = crate::world::full_fingerprint();
        let mut refused_any = false;
        for (net, lower) in [(Network::Mainnet, false), (Network::Testnet, false), (Network::Regtest, false), (Network::Mainnet, true), (Network::Testnet, true), (Network::Regtest, true)] {
            for ep in ENDPOINTS {
                let r = call(w, ep, net, lower);
                if lower {
                    out.count("calls_with_the_lower_case_network_spelling");
                }
                let exempt_sync = ep == "send_transaction";
                let must_refuse = !cfg.api_access
                    || net != cfg.net
                    || (cfg.disable_if_not_synced && !exempt_sync && must_refuse_sync);
                let may_refuse = !cfg.api_access
                    || net != cfg.net
                    || (cfg.disable_if_not_synced && !exempt_sync && may_refuse_sync);
                match r {
                    Ok(()) => {
                        if must_refuse {
                            out.violation(
                                "answered-but-must-refuse",
                                None,
                                json!({"endpoint": ep, "requested_network": net.to_string(),
                                       "api_access": cfg.api_access, "sync_flag": cfg.disable_if_not_synced,
                                       "max_connected_announced_height": max_must, "best_height": best_h}),
                            );
                        } else {
                            out.count("answers");
                        }
                    }
                    Err(ref_) => {
                        refused_any = true;
                        let ok_msg = match &ref_ {
                            Refusal::ApiDisabled => !cfg.api_access,
                            Refusal::WrongNetwork => net != cfg.net,
                            Refusal::NotSynced => cfg.disable_if_not_synced && !exempt_sync && may_refuse_sync,
                            _ => false,
                        };
                        if !may_refuse || !ok_msg {
                            out.violation(
                                "refused-but-must-answer",
                                None,
                                json!({"endpoint": ep, "requested_network": net.to_string(), "refusal": ref_,
                                       "api_access": cfg.api_access, "sync_flag": cfg.disable_if_not_synced,
                                       "max_announced_height": max_may, "best_height": best_h}),
                            );
                        } else {
                            out.count(&format!("refusals: {:?}", ref_));
                        }
                    }
                }
            }
        }
        // refusals have no effect (metrics and cycle mocks aside)
        if refused_any {
            let fp_after = crate::world::full_fingerprint();
            // answered update calls legitimately touch the fee cache; compare only when
            // everything was refused for this state's own network too
            let all_refused = !cfg.api_access;
            if all_refused && fp_before != fp_after {
                out.violation("refusal-had-an-effect", None, json!({}));
            }
        }
        // exempt endpoints always answer
        if let Err(p) = w.info() {
            out.violation("get_blockchain_info-refused", None, json!({"panic": p}));
        }
        if let Err(p) = guarded(ic_btc_canister::get_config) {
            out.violation("get_config-refused", None, json!({"panic": p}));
        }
        let m = guarded(|| {
            ic_btc_canister::http_request(ic_btc_canister::types::HttpRequest {
                method: "GET".into(),
                url: "/metrics".into(),
                headers: vec![],
                body: Default::default(),
            })
        });
        if let Err(p) = m {
            if !matches!(classify_refusal(&p), Refusal::Other(_)) {
                out.violation("metrics-refused-by-guard", None, json!({"panic": p}));
            }
        }
        out.outcomes.insert(fp64(&[max_must as u8, max_may as u8, best_h as u8]));
    }
}

pub fn run(tier: &str) -> i32 {
    let mut rep = Report::new("C14", tier, "model_checking");
    let quick = tier == "quick";
    let flags = [(true, true), (true, false), (false, true), (false, false)];
    // (net, theta, n, hdr lens, max hdr events)
    let parts: Vec<(Network, u32, usize, Vec<u8>, usize)> = if quick {
        vec![(Network::Regtest, 2, 3, vec![1, 3, 4], 2)]
    } else {
        vec![
            (Network::Regtest, 2, 4, vec![1, 2, 3, 4], 2),
            (Network::Regtest, 1, 4, vec![1, 3, 4], 2),
            (Network::Regtest, 3, 4, vec![3, 4], 3),
        ]
    };
    for (net, theta, n, lens, mh) in parts {
        for (api, sync) in flags {
            let mut alpha = Alphabet::tree(n, &[1]);
            alpha.hdr_lens = lens.clone();
            alpha.max_hdr_events = mh;
            let mut cfg = WorldCfg::on(net, theta);
            cfg.api_access = api;
            cfg.disable_if_not_synced = sync;
            let m = ChainModel { cfg, alpha, oracle: C14 };
            let e = explore(&m, &Limits::new(2, if quick { 300 } else { 6000 }));
            rep.absorb(
                &format!("TREE+Hdr net={} theta={} n={} hdr_chains={:?}x{} api_access={} disable_if_not_synced={}", net, theta, n, lens, mh, api, sync),
                e,
                json!({"network": net.to_string(), "threshold": theta, "max_blocks": n, "announced_chain_lengths": lens,
                       "max_header_events": mh, "api_access": api, "disable_api_if_not_fully_synced": sync}),
            );
        }
    }
    // the best chain may be shorter than a lighter competing branch: the distance to the
    // announced headers is measured from the best chain
    for (theta, n, diffs, lens) in if quick { vec![(3u32, 4usize, vec![1u8, 3], vec![3u8, 4])] } else { vec![(3, 5, vec![1, 3], vec![3, 4]), (2, 4, vec![1, 2, 3], vec![2, 3, 4])] } {
        let mut alpha = Alphabet::tree(n, &diffs);
        alpha.hdr_lens = lens.clone();
        alpha.max_hdr_events = 1;
        let mut cfg = WorldCfg::regtest(theta);
        cfg.api_access = true;
        cfg.disable_if_not_synced = true;
        let m = ChainModel { cfg, alpha, oracle: C14 };
        let e = explore(&m, &Limits::new(2, if quick { 300 } else { 6000 }));
        rep.absorb(
            &format!("TREE+Hdr mixed difficulty theta={} n={} D={:?} hdr_chains={:?}", theta, n, diffs, lens),
            e,
            json!({"threshold": theta, "max_blocks": n, "difficulties": diffs, "announced_chain_lengths": lens, "api_access": true, "disable_api_if_not_fully_synced": true}),
        );
    }
    // headers that arrive the way they do in production: in get_successors replies through the
    // heartbeat, including the first page of a paginated block, under rejects, upgrades and
    // interleaved heartbeats (schedule explorer of C13 with the sync flag on)
    for (theta, p, dev) in if quick { vec![(2u32, 1usize, 2usize)] } else { vec![(2, 1, 4), (2, 2, 3), (1, 1, 3)] } {
        let m = crate::sched::SchedModel {
            net: Network::Regtest,
            theta,
            pool: crate::sched::Pool::tall(Network::Regtest, p, 6),
            max_deviations: dev,
            max_depth: 100,
            hb_budget: None,
            prop: "C14",
            liveness: false,
            upgrade_transparency: false,
            syncing_toggles: false,
            sync_gate: true,
            gate_toggle: false,
        };
        let e = explore(&m, &Limits::new(3, if quick { 300 } else { 6000 }));
        rep.absorb(
            &format!("SCHED+gate theta={} follow_ups={} deviations<={}", theta, p, dev),
            e,
            json!({"threshold": theta, "follow_up_pages": p, "max_deviations": dev,
                   "pool": "G-T1-...-T6, T2 paginated, one block and at most three announced headers per reply",
                   "oracle": "get_balance refuses iff the highest header announced in a processed reply (block not yet in the tree) is more than 2 above the best height"}),
        );
    }
    // the flag switched on in the middle of a history: headers announced while it was off count
    for (theta, p, dev) in if quick { vec![(2u32, 1usize, 1usize)] } else { vec![(2, 1, 3), (2, 2, 2)] } {
        let m = crate::sched::SchedModel {
            net: Network::Regtest,
            theta,
            pool: crate::sched::Pool::tall(Network::Regtest, p, 6),
            max_deviations: dev,
            max_depth: 100,
            hb_budget: None,
            prop: "C14",
            liveness: false,
            upgrade_transparency: false,
            syncing_toggles: false,
            sync_gate: true,
            gate_toggle: true,
        };
        let e = explore(&m, &Limits::new(3, if quick { 300 } else { 6000 }));
        rep.absorb(
            &format!("SCHED+gate switched on mid-history theta={} follow_ups={} deviations<={}", theta, p, dev),
            e,
            json!({"threshold": theta, "follow_up_pages": p, "max_deviations": dev,
                   "flag": "disable_api_if_not_fully_synced starts disabled; set_config enables it at any point"}),
        );
    }
    rep.floor("sync_flag_switched_on_mid_history", 20);
    rep.floor("gate_closed_states", 20);
    rep.floor("gate_open_states_with_pending_headers", 20);
    rep.rule = "TREE histories with announced-header events (chains of 1-4 headers on any live block; the first header is that of the block the factory would deliver next, so headers are overtaken by arrivals, left on discarded forks, or reached by the stable height) x the 4 flag combinations; in every state the 7 data endpoints x 3 requested networks and the 3 exempt endpoints are called; plus schedules of the fetch protocol (headers arriving in complete and paginated replies, rejects, upgrades, interleaved heartbeats) with the gate judged in every state".into();
    rep.bounds = json!({"tier": tier});
    rep.assume("headers of discarded forks may or may not still count (C20 allows dropping them up to the moment the stable height reaches theirs): such states are 'either'");
    rep.assume("the metrics endpoint cannot complete natively (ic0.time); only 'never refused by a guard' is checked for it");
    rep.assume("mainnet/testnet canisters are not explored here: header validation needs proof of work; the guards are network independent");
    rep.floor("pending_connected_headers_found_retained", 1000);
    rep.floor("states_at_distance_exactly_2", 50);
    rep.floor("states_at_distance_exactly_3", 50);
    rep.floor("refusals: NotSynced", 100);
    rep.floor("refusals: ApiDisabled", 1000);
    rep.floor("refusals: WrongNetwork", 1000);
    rep.floor("answers", 1000);
    rep.finish()
}

//! C09 — upgrades are transparent at every point.
use crate::chain::*;
use crate::engine::{explore, Limits, Out};
use crate::observe::{self, Obs, ObsOpts};
use crate::props::c01::ledger_alphabet;
use crate::report::Report;
use crate::util::fp64;
use crate::world::{World, WorldCfg};
use ic_btc_interface::Network;
use serde_json::json;

pub struct C09 {
    /// how many events after an upgrade are still compared with the run without it
    pub continuation: usize,
}

#[derive(Default)]
pub struct Mon {
    before: Option<Obs>,
    before_fp: Option<Vec<u8>>,
}

fn opts() -> ObsOpts {
    ObsOpts {
        page_limits: vec![None, Some(1)],
        headers: true,
        max_c_extra: 1,
    }
}

/// Serialised state with everything an upgrade legitimately resets masked: syncing
/// flags/response, per-block metrics (not serialised: fee rates are recomputed lazily,
/// see C15) and the configuration (compared separately, it may be overridden).
fn comparable_state() -> Vec<u8> {
    let bytes = crate::world::state_bytes(true);
    let mut v: ciborium::Value = ciborium::de::from_reader(bytes.as_slice()).unwrap();
    fn mask(v: &mut ciborium::Value) {
        use ciborium::Value as V;
        if let V::Map(entries) = v {
            for (k, val) in entries.iter_mut() {
                if let V::Text(n) = k {
                    match n.as_str() {
                        "is_fetching_blocks" | "response_to_process" => *val = V::Null,
                        "stability_threshold" | "lazily_evaluate_fee_percentiles" => *val = V::Null,
                        _ => mask(val),
                    }
                } else {
                    mask(val);
                }
            }
        } else if let V::Array(items) = v {
            for i in items.iter_mut() {
                mask(i);
            }
        }
    }
    mask(&mut v);
    let mut out = vec![];
    ciborium::ser::into_writer(&v, &mut out).unwrap();
    // stable maps and block cache (contents), without the per-block metrics
    out.extend(crate::world::logical_dump_parts().0);
    out
}

/// Human-readable location of the first difference between two comparable states.
fn first_difference(a: &[u8], b: &[u8]) -> String {
    let va: Result<ciborium::Value, _> = ciborium::de::from_reader(a);
    let vb: Result<ciborium::Value, _> = ciborium::de::from_reader(b);
    fn walk(a: &ciborium::Value, b: &ciborium::Value, path: &mut Vec<String>) -> Option<String> {
        use ciborium::Value as V;
        match (a, b) {
            (V::Map(x), V::Map(y)) => {
                if x.len() != y.len() {
                    return Some(format!("{}: map sizes {} vs {}", path.join("."), x.len(), y.len()));
                }
                for ((k1, v1), (_, v2)) in x.iter().zip(y.iter()) {
                    path.push(format!("{:?}", k1));
                    if let Some(r) = walk(v1, v2, path) {
                        return Some(r);
                    }
                    path.pop();
                }
                None
            }
            (V::Array(x), V::Array(y)) => {
                if x.len() != y.len() {
                    return Some(format!("{}: array lengths {} vs {}", path.join("."), x.len(), y.len()));
                }
                for (i, (v1, v2)) in x.iter().zip(y.iter()).enumerate() {
                    path.push(format!("[{}]", i));
                    if let Some(r) = walk(v1, v2, path) {
                        return Some(r);
                    }
                    path.pop();
                }
                None
            }
            _ => {
                if a != b {
                    Some(format!("{}: {:?} vs {:?}", path.join("."), a, b))
                } else {
                    None
                }
            }
        }
    }
    match (va, vb) {
        (Ok(x), Ok(y)) => walk(&x, &y, &mut vec![]).unwrap_or_else(|| "stable maps / block cache dump".into()),
        _ => "undecodable".into(),
    }
}

/// The history with upgrades replaced by the plain set_config they carry.
fn without_upgrades(w: &World, hist: &[Ev]) -> Vec<Ev> {
    let _ = w;
    hist.iter()
        .filter_map(|e| match e {
            Ev::Upgrade { cfg } => match cfg {
                0 | 1 => None,
                _ => Some(Ev::Upgrade { cfg: 100 + *cfg }), // marker: config only
            },
            other => Some(other.clone()),
        })
        .collect()
}

fn apply_plain(w: &mut World, ev: &Ev) {
    match ev {
        Ev::Upgrade { cfg } if *cfg >= 100 => {
            if let Some(req) = upgrade_cfg(w, *cfg - 100) {
                let _ = w.set_config(req);
            }
        }
        other => {
            let _ = apply_ev(w, other);
        }
    }
}

impl Oracle for C09 {
    type Mon = Mon;
    fn prop(&self) -> &'static str {
        "C09"
    }
    fn params(&self) -> serde_json::Value {
        json!({"continuation": self.continuation})
    }

    fn before(&self, w: &mut World, mon: &mut Mon, ev: &Ev, check: bool) {
        if check {
            if let Ev::Upgrade { .. } = ev {
                mon.before = Some(observe::observe(w, &opts()));
                mon.before_fp = Some(comparable_state());
            }
        }
    }

    fn on_transition(&self, w: &mut World, mon: &mut Mon, ev: &Ev, pre: &Snap, _a: &Applied, check: bool, out: &mut Out) {
        if !check {
            return;
        }
        let Ev::Upgrade { cfg } = ev else { return };
        let Some(before) = mon.before.take() else { return };
        let mut after = observe::observe(w, &opts());
        // expected configuration: the old one with the requested overrides
        let mut before_adj = before.clone();
        if *cfg >= 2 {
            // compare config separately below
            before_adj.remove("config");
            after.remove("config");
            let c = w.config();
            let ok = match cfg {
                2 => c.stability_threshold == pre.threshold as u128 + 1,
                _ => c.lazily_evaluate_fee_percentiles == ic_btc_interface::Flag::Enabled,
            };
            if !ok {
                out.violation("config-argument-not-applied", None, json!({"cfg": cfg}));
            }
        }
        out.add("probes_compared_across_upgrade", after.len() as u64);
        let d = observe::diff(&before_adj, &after);
        if !d.is_empty() {
            let only_len = d.iter().all(|k| k == "info.utxos_length");
            out.violation(
                "answer-changed-by-upgrade",
                if only_len { Some("F6") } else { None },
                json!({"differing_probes": d.iter().take(8).collect::<Vec<_>>(), "n_differing": d.len(),
                       "before": d.first().and_then(|k| before_adj.get(k)), "after": d.first().and_then(|k| after.get(k)),
                       "ingesting": pre.ingesting}),
            );
        }
        if pre.ingesting {
            out.count("upgrades_mid_ingestion");
        }
        if pre.tree.len() >= 3 {
            out.count("upgrades_with_three_or_more_unstable_blocks");
        }
        // complete state comparison (everything the upgrade must preserve)
        let after_fp = comparable_state();
        let before_fp = mon.before_fp.take();
        if before_fp.as_ref() != Some(&after_fp) {
            let where_ = before_fp
                .as_ref()
                .map(|b| first_difference(b, &after_fp))
                .unwrap_or_default();
            out.violation(
                "state-changed-by-upgrade",
                None,
                json!({"note": "serialised state (syncing flags, per-block metrics and config masked) plus stable maps and block cache differ across pre_upgrade/post_upgrade",
                       "first_difference": where_}),
            );
        } else {
            out.count("states_identical_across_upgrade");
        }
        // the fetch guard and any stored response are gone
        let (fetching, resp) = ic_btc_canister::with_state(|s| {
            (s.syncing_state.is_fetching_blocks, s.syncing_state.response_to_process.is_some())
        });
        if fetching || resp {
            out.violation("syncing-state-not-reset", None, json!({"is_fetching": fetching, "response_stored": resp}));
        }
    }

    fn on_state(&self, w: &mut World, _mon: &mut Mon, hist: &[Ev], out: &mut Out) {
        out.distinct.insert(fp64(&crate::world::state_bytes(true)));
        // continuation equivalence: within `continuation` events after the last upgrade,
        // the answers equal those of the run in which the upgrade did not happen
        let Some(last_up) = hist.iter().rposition(|e| matches!(e, Ev::Upgrade { .. })) else {
            return;
        };
        let since = hist.len() - 1 - last_up;
        if since == 0 || since > self.continuation {
            return;
        }
        let with = observe::observe(w, &opts());
        out.outcomes.insert(observe::digest(&with));
        let plain = without_upgrades(w, hist);
        let mut w2 = World::new(w.cfg.clone());
        for e in &plain {
            apply_plain(&mut w2, e);
        }
        let without = observe::observe(&w2, &opts());
        // restore this thread's canister to the explored state
        let mut w3 = World::new(w.cfg.clone());
        for e in hist {
            let _ = apply_ev(&mut w3, e);
        }
        *w = w3;
        let d = observe::diff(&without, &with);
        out.count("continuations_compared");
        if !d.is_empty() {
            let only_len = d.iter().all(|k| k == "info.utxos_length");
            out.violation(
                "continuation-differs-from-run-without-upgrade",
                if only_len { Some("F6") } else { None },
                json!({"events_since_upgrade": since, "differing_probes": d.iter().take(8).collect::<Vec<_>>(),
                       "n_differing": d.len(),
                       "without_upgrade": d.first().and_then(|k| without.get(k)),
                       "with_upgrade": d.first().and_then(|k| with.get(k))}),
            );
        }
    }
}

pub fn run(tier: &str) -> i32 {
    let mut rep = Report::new("C09", tier, "model_checking");
    let quick = tier == "quick";
    let few = vec![BODY_CB, BODY_SPEND_PARENT, BODY_MULTI, BODY_ODD, BODY_CHAIN];
    // (net, theta, n, diffs, bodies, special, budgets, upgrade cfgs, continuation)
    let parts: Vec<(Network, u32, usize, Vec<u8>, Vec<u8>, usize, Vec<u32>, Vec<u8>, usize)> = if quick {
        vec![
            (Network::Regtest, 1, 3, vec![1], few.clone(), 1, vec![0, 1], vec![0, 1, 2], 2),
            (Network::Regtest, 2, 4, vec![1, 2], vec![BODY_CB], 0, vec![0], vec![0, 3], 1),
        ]
    } else {
        vec![
            (Network::Regtest, 1, 4, vec![1], few.clone(), 2, vec![0, 1, 2], vec![0, 1, 2, 3], 3),
            (Network::Regtest, 2, 5, vec![1, 2], few.clone(), 1, vec![0, 1], vec![0, 2], 2),
            (Network::Regtest, 3, 5, vec![1, 2, 3], vec![BODY_CB], 0, vec![0], vec![0, 2], 2),
            (Network::Mainnet, 2, 4, vec![1, 2], few.clone(), 1, vec![0, 1], vec![0, 2], 2),
            (Network::Testnet, 1, 4, vec![1], few.clone(), 1, vec![0, 1], vec![0, 1], 2),
        ]
    };
    // the same with every configuration field away from its default (syncing disabled,
    // lazy fees, sync gate on, custom fees, watchdog canister, burn_cycles, blocks source)
    let exotic_parts: Vec<(u32, usize)> = if quick { vec![(1, 3)] } else { vec![(1, 4), (2, 4)] };
    for (theta, n) in exotic_parts {
        let mut alpha = ledger_alphabet(n, &[1], 1);
        alpha.bodies = vec![BODY_CB, BODY_MULTI];
        alpha.budgets = vec![0, 1];
        alpha.upgrades = vec![0, 1];
        alpha.max_upgrades = 1;
        let mut cfg = WorldCfg::regtest(theta);
        cfg.syncing = false;
        cfg.lazy_fees = true;
        cfg.disable_if_not_synced = true;
        cfg.exotic = true;
        cfg.fees = Some(ic_btc_interface::Fees::testnet());
        let m = ChainModel { cfg, alpha, oracle: C09 { continuation: 1 } };
        let e = explore(&m, &Limits::new(2, if quick { 300 } else { 6000 }));
        rep.absorb(
            &format!("LEDGER+Upgrade non-default configuration theta={} n={}", theta, n),
            e,
            json!({"threshold": theta, "max_blocks": n, "configuration": "syncing disabled, lazy fees, sync gate on, testnet fee table, watchdog canister, burn_cycles, custom blocks source"}),
        );
    }
    // announced headers pending at the upgrade (they are part of the state the sync gate and
    // later validations read)
    {
        let mut alpha = Alphabet::tree(3, &[1]);
        alpha.hdr_lens = vec![1, 2];
        alpha.max_hdr_events = 1;
        alpha.upgrades = vec![0, 1];
        alpha.max_upgrades = 1;
        let mut cfg = WorldCfg::regtest(2);
        cfg.disable_if_not_synced = true;
        let m = ChainModel { cfg, alpha, oracle: C09 { continuation: 1 } };
        let e = explore(&m, &Limits::new(2, if quick { 300 } else { 6000 }));
        rep.absorb(
            "TREE+Hdr+Upgrade theta=2 n=3 (announced headers pending at the upgrade, sync gate on)",
            e,
            json!({"threshold": 2, "max_blocks": 3, "announced_header_chains": [1, 2], "sync_gate": true}),
        );
    }
    // a configuration that differs from the network's defaults in the other direction: an
    // operator's all-zero fee table on mainnet / testnet (zero is a legitimate value and must
    // survive an upgrade like any other)
    for net in [Network::Mainnet, Network::Testnet] {
        let mut alpha = ledger_alphabet(if quick { 2 } else { 3 }, &[1], 0);
        alpha.bodies = vec![BODY_CB];
        alpha.upgrades = vec![0, 1];
        alpha.max_upgrades = 1;
        let mut cfg = WorldCfg::on(net, 2);
        cfg.fees = Some(ic_btc_interface::Fees::default());
        let m = ChainModel { cfg, alpha, oracle: C09 { continuation: 1 } };
        let e = explore(&m, &Limits::new(2, if quick { 300 } else { 6000 }));
        rep.absorb(
            &format!("LEDGER+Upgrade all-zero fee table on {}", net),
            e,
            json!({"network": net.to_string(), "configuration": "fees all zero (not the network's default table)"}),
        );
    }
    for (net, theta, n, diffs, bodies, sp, budgets, ups, cont) in parts {
        let mut alpha = ledger_alphabet(n, &diffs, sp);
        alpha.bodies = bodies.clone();
        alpha.budgets = budgets.clone();
        alpha.upgrades = ups.clone();
        alpha.max_upgrades = 1;
        let m = ChainModel {
            cfg: WorldCfg::on(net, theta),
            alpha,
            oracle: C09 { continuation: cont },
        };
        let e = explore(&m, &Limits::new(2, if quick { 300 } else { 6000 }));
        rep.absorb(
            &format!("LEDGER+Upgrade net={} theta={} n={} D={:?} bodies={:?} budgets={:?} upgrade_args={:?} continuation<={}", net, theta, n, diffs, bodies, budgets, ups, cont),
            e,
            json!({"network": net.to_string(), "threshold": theta, "max_blocks": n, "difficulties": diffs,
                   "bodies": bodies, "ingestion_budgets": budgets, "upgrade_arguments": ups, "continuation_events": cont}),
        );
    }
    // fee percentiles across an upgrade: the endpoint mutates a cache, so it is not part of the
    // side-effect-free probe set; instead fee-carrying histories with an upgrade at any
    // boundary are judged against the upgrade-oblivious reference of C15 (an answer computed
    // before the upgrade must still be served after it, e.g. once the fee-paying block has
    // stabilised and only coinbase-only blocks remain unstable)
    let fee_parts: Vec<(u32, bool, usize, usize)> = if quick { vec![(2, false, 4, 0), (2, true, 4, 2)] } else { vec![(2, false, 5, 0), (2, true, 5, 3), (3, false, 5, 0)] };
    for (theta, lazy, n, qs) in fee_parts {
        let m = crate::props::c15::C15Model {
            theta,
            lazy,
            max_blocks: n,
            bodies: vec![BODY_CB, BODY_FEE_SEGWIT, BODY_FEE_PAIR],
            max_upgrades: 1,
            max_queries: qs,
        };
        let e = explore(&m, &Limits::new(2, if quick { 300 } else { 6000 }));
        rep.absorb(
            &format!("FEES+Upgrade theta={} lazy={} n={} queries<={}", theta, lazy, n, qs),
            e,
            json!({"threshold": theta, "lazy": lazy, "max_blocks": n, "max_upgrades": 1, "max_query_events": qs,
                   "oracle": "fee percentiles = those of the upgrade-oblivious reference (same caching rule, no upgrade)"}),
        );
    }
    // fetch-protocol phases: an upgrade with a request outstanding, with partial pages
    // stored, with a complete response stored (schedule explorer of C13, probe comparison on)
    let sched_parts: Vec<(u32, usize, usize)> = if quick { vec![(2, 2, 3), (1, 1, 2)] } else { vec![(2, 2, 5), (2, 3, 4), (1, 2, 4)] };
    for (theta, p, dev) in sched_parts {
        let m = crate::sched::SchedModel {
            net: Network::Regtest,
            theta,
            pool: crate::sched::Pool::standard(Network::Regtest, p),
            max_deviations: dev,
            max_depth: 60,
            hb_budget: None,
            prop: "C09",
            liveness: true,
            upgrade_transparency: true,
            syncing_toggles: false,
            sync_gate: false,
            gate_toggle: false,
        };
        let e = explore(&m, &Limits::new(3, if quick { 300 } else { 6000 }));
        rep.absorb(
            &format!("SCHED+Upgrade theta={} follow_ups={} deviations<={}", theta, p, dev),
            e,
            json!({"threshold": theta, "follow_up_pages": p, "max_deviations": dev,
                   "oracle": "all probes equal across the upgrade; next request is initial; a fault-free suffix syncs the pool"}),
        );
    }
    rep.floor("upgrades_with_a_request_outstanding", 5);
    rep.floor("upgrades_with_partial_pages_stored", 2);
    rep.floor("upgrades_with_a_complete_response_stored", 2);
    rep.floor("initial_requests_after_reject_or_upgrade", 10);
    rep.floor("liveness_suffixes_checked", 100);
    rep.rule = "LEDGER/TREE histories with sliced ingestion; one upgrade (no argument / empty / new threshold / lazy fees) at every message boundary; across the upgrade the complete probe set and the complete logical state (syncing flags, per-block metrics and overridden config masked) must be identical; for up to k further events the probe answers must equal those of the run in which the upgrade is replaced by the plain set_config it carries; fee-carrying histories with an upgrade at any boundary against the upgrade-oblivious fee reference".into();
    rep.bounds = json!({"tier": tier});
    rep.assume("heartbeat protocol phases (request outstanding, partial pages stored, complete response stored) are explored with the schedule explorer (same model as C13) with the probe comparison switched on");
    rep.assume("stable memory is the native vector memory; the wasm heap is not modelled (State is rebuilt from the serialised bytes exactly as in post_upgrade)");
    rep.floor("probes_compared_across_upgrade", 10_000);
    rep.floor("upgrades_mid_ingestion", 20);
    rep.floor("upgrades_with_three_or_more_unstable_blocks", 100);
    rep.floor("continuations_compared", 200);
    rep.floor("states_after_upgrade_serving_an_answer_no_longer_derivable", 5);
    rep.finish()
}

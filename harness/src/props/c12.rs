//! C12 — only structurally sound blocks pass: coinbase first, merkle root, no duplicates.
use crate::engine::Out;
use crate::factory::{self, *};
use crate::report::Report;
use crate::util::{fp64, sha256d};
use crate::world::{World, WorldCfg};
use bitcoin::hashes::Hash;
use bitcoin::{Block, Transaction, TxMerkleNode};
use ic_btc_validation::{BlockValidator, HeaderStore, ValidateBlockError};
use serde_json::json;
use std::collections::HashSet;
use std::time::Duration;

/// Independent merkle root (Bitcoin's algorithm: duplicate the last node of odd levels).
pub fn ref_merkle_root(txids: &[[u8; 32]]) -> [u8; 32] {
    if txids.is_empty() {
        return [0; 32];
    }
    let mut level: Vec<[u8; 32]> = txids.to_vec();
    while level.len() > 1 {
        if level.len() % 2 == 1 {
            level.push(*level.last().unwrap());
        }
        level = level
            .chunks(2)
            .map(|p| {
                let mut b = p[0].to_vec();
                b.extend(p[1]);
                sha256d(&b)
            })
            .collect();
    }
    level[0]
}

fn txid(tx: &Transaction) -> [u8; 32] {
    tx.compute_txid().to_byte_array()
}

fn is_coinbase(tx: &Transaction) -> bool {
    tx.input.len() == 1 && tx.input[0].previous_output.is_null()
}

/// The reference acceptance predicate of the statement.
fn ref_accept(txs: &[Transaction], header_root: [u8; 32]) -> (bool, bool) {
    // (accept, decided): undecided when two transactions differ only in signature data
    let ids: Vec<[u8; 32]> = txs.iter().map(txid).collect();
    let distinct: HashSet<[u8; 32]> = ids.iter().copied().collect();
    let nids: HashSet<[u8; 32]> = txs.iter().map(|t| t.compute_ntxid().to_byte_array()).collect();
    let decided = distinct.len() == nids.len();
    let ok = !txs.is_empty() && is_coinbase(&txs[0]) && ref_merkle_root(&ids) == header_root && distinct.len() == ids.len();
    (ok, decided)
}

struct OneStore {
    genesis: bitcoin::block::Header,
}

impl HeaderStore for &OneStore {
    fn get_with_block_hash(&self, hash: &bitcoin::BlockHash) -> Option<bitcoin::block::Header> {
        if *hash == self.genesis.block_hash() {
            Some(self.genesis)
        } else {
            None
        }
    }
    fn get_with_height(&self, height: u32) -> Option<bitcoin::block::Header> {
        if height == 0 {
            Some(self.genesis)
        } else {
            None
        }
    }
    fn height(&self) -> u32 {
        0
    }
}

fn make_txs(n: usize) -> Vec<Transaction> {
    // a chain of spends inside the block, so that the valid block is transaction-valid
    let mut v = vec![coinbase_tx(n as u64, vec![(50, p2pkh(1))])];
    for i in 1..n {
        let witness = if i % 3 == 0 { 2 } else { 0 };
        let prev = txid(&v[i - 1]);
        v.push(spend_tx(&[(prev, 0)], vec![(50, p2wpkh(i as u8))], witness, i as u8));
    }
    v
}

/// Mutations of a transaction list: (name, list).
fn mutants(txs: &[Transaction]) -> Vec<(String, Vec<Transaction>)> {
    let n = txs.len();
    let mut out: Vec<(String, Vec<Transaction>)> = vec![("valid".into(), txs.to_vec())];
    // duplication of the trailing 2^k leaves (the CVE-2012-2459 family and its non-root-preserving siblings)
    let mut k = 1;
    while k <= n {
        let mut m = txs.to_vec();
        m.extend_from_slice(&txs[n - k..]);
        out.push((format!("repeat last {}", k), m));
        k *= 2;
    }
    // the same repetitions with the copies' witnesses altered: same txid (and merkle root),
    // different bytes and wtxid - still two transactions sharing an id
    let alter = |t: &Transaction| {
        let mut t = t.clone();
        for i in t.input.iter_mut() {
            i.witness.push([0x01u8]);
        }
        t
    };
    let mut k = 1;
    while k <= n {
        let mut m = txs.to_vec();
        m.extend(txs[n - k..].iter().map(alter));
        out.push((format!("repeat last {} with altered witnesses", k), m));
        k *= 2;
    }
    if n >= 3 {
        let mut m = txs.to_vec();
        m.insert(2, alter(&txs[1]));
        out.push(("copy of tx 1 with an altered witness at position 2".into(), m));
    }
    // composition to depth 2
    let first: Vec<(String, Vec<Transaction>)> = out[1..].to_vec();
    for (name, m) in &first {
        let mut k = 1;
        while k <= m.len() && k <= 8 {
            let mut mm = m.clone();
            mm.extend_from_slice(&m[m.len() - k..]);
            out.push((format!("{} then repeat last {}", name, k), mm));
            k *= 2;
        }
    }
    // removals
    for i in 0..n {
        let mut m = txs.to_vec();
        m.remove(i);
        out.push((format!("remove {}", i), m));
    }
    // adjacent swaps
    for i in 0..n.saturating_sub(1) {
        let mut m = txs.to_vec();
        m.swap(i, i + 1);
        out.push((format!("swap {} {}", i, i + 1), m));
    }
    // rotations
    for r in 1..n.min(4) {
        let mut m = txs.to_vec();
        m.rotate_left(r);
        out.push((format!("rotate {}", r), m));
    }
    // coinbase moved to the end / duplicated / a second coinbase
    if n >= 2 {
        let mut m = txs.to_vec();
        let c = m.remove(0);
        m.push(c);
        out.push(("coinbase last".into(), m));
        let mut m = txs.to_vec();
        m.insert(1, txs[0].clone());
        out.push(("coinbase twice".into(), m));
        let mut m = txs.to_vec();
        m.push(coinbase_tx(9999, vec![(1, p2pkh(9))]));
        out.push(("second distinct coinbase at the end".into(), m));
    }
    // a duplicate in the middle
    if n >= 3 {
        let mut m = txs.to_vec();
        m.insert(2, txs[1].clone());
        out.push(("duplicate of tx 1 at position 2".into(), m));
    }
    out.push(("empty".into(), vec![]));
    out
}

pub fn run(tier: &str) -> i32 {
    let mut rep = Report::new("C12", tier, "exploration");
    let quick = tier == "quick";
    let max_n = if quick { 17 } else { 65 };
    let net = ic_btc_interface::Network::Regtest;
    let g = factory::genesis(net);
    let store = OneStore { genesis: g.header };
    let now = Duration::from_secs(factory::now_secs(net));
    let mut out = Out::default();
    let mut w = World::new(WorldCfg::regtest(2));
    let mut distinct = HashSet::new();
    for n in 1..=max_n {
        let txs = make_txs(n);
        let orig_ids: Vec<[u8; 32]> = txs.iter().map(txid).collect();
        let orig_root = ref_merkle_root(&orig_ids);
        for (name, m) in mutants(&txs) {
            for recompute in [false, true] {
                let ids: Vec<[u8; 32]> = m.iter().map(txid).collect();
                let root = if recompute { ref_merkle_root(&ids) } else { orig_root };
                let mut header = factory::make_header(g.header.block_hash(), g.header.time + 600, REGTEST_BITS, &[]);
                header.merkle_root = TxMerkleNode::from_byte_array(root);
                factory::mine(&mut header);
                let block = Block { header, txdata: m.clone() };
                let (want, decided) = ref_accept(&m, root);
                let v = BlockValidator::new(&store, bitcoin::Network::Regtest);
                let got = v.validate_block(&block, now);
                out.states += 1;
                distinct.insert(fp64(&factory::block_bytes(&block)));
                let ctx = json!({"transactions": n, "mutation": name, "root": if recompute { "recomputed" } else { "left alone" }});
                if !decided {
                    out.count("undecided_same_ntxid_different_txid");
                    continue;
                }
                if got.is_ok() != want {
                    out.set_history(ctx.clone());
                    out.violation("block-acceptance", None, json!({"expected_accept": want, "observed": format!("{:?}", got)}));
                } else if want {
                    out.count("accepted_variants");
                } else {
                    out.count("rejected_variants");
                    if !recompute && name != "valid" && ref_merkle_root(&ids) == orig_root && m.len() > n {
                        out.count("merkle_preserving_duplications_rejected");
                        if name.contains("altered witnesses") {
                            out.count("merkle_preserving_duplications_with_altered_witnesses_rejected");
                        }
                        if got != Err(ValidateBlockError::DuplicateTransactions) {
                            out.set_history(ctx.clone());
                            out.violation("cve-mutant-rejected-for-another-reason", None, json!({"observed": format!("{:?}", got)}));
                        }
                    }
                }
                // through the canister's insertion path as well (fresh state each time)
                // (only where the block is rejected by validation or is the transaction-valid
                // original: reordered / thinned lists spend outputs that do not exist yet,
                // which is outside the domain and traps by design)
                if (!want || name == "valid") && (n <= 9 || name.starts_with("repeat") || name == "valid") {
                    // a rejected variant that carries the genuine block's header (root left alone)
                    // must not spoil the genuine block: delivered right after it, the valid block
                    // is accepted ("every valid block is accepted", whatever arrived before)
                    if !want && !recompute && name != "valid" && name != "empty" && (n <= 9 || name.starts_with("repeat")) {
                        w = World::new(WorldCfg::regtest(2));
                        let first = w.deliver_direct(&block, None);
                        let genuine = Block { header, txdata: txs.clone() };
                        if genuine.block_hash() == block.block_hash() {
                            match (first, w.deliver_direct(&genuine, None)) {
                                (Ok(false), Ok(true)) => out.count("valid_block_accepted_after_its_rejected_twin"),
                                (a, b) => {
                                    out.set_history(ctx.clone());
                                    out.violation(
                                        "valid-block-refused-after-its-rejected-twin",
                                        None,
                                        json!({"twin": format!("{:?}", a), "valid_block": format!("{:?}", b)}),
                                    );
                                }
                            }
                        }
                    }
                    // twice: on a fresh canister, and on one to which the header of this block
                    // was announced beforehand (a block whose header is already known gets the
                    // same structural checks)
                    for announced in [false, true] {
                        w = World::new(WorldCfg::regtest(2));
                        if announced {
                            let blob = crate::world::header_blob(factory::header_bytes(&block.header));
                            let r = crate::util::guarded(|| {
                                ic_btc_canister::with_state_mut(|s| ic_btc_canister::state::insert_next_block_headers(s, &[blob.clone()]))
                            });
                            if let Err(p) = r {
                                out.set_history(ctx.clone());
                                out.violation("announce-trap", None, json!({"panic": p}));
                                continue;
                            }
                        }
                        let r = w.deliver_direct(&block, None);
                        match r {
                            Err(p) => {
                                out.set_history(ctx.clone());
                                out.violation("insert-block-trap", None, json!({"panic": p, "header_announced_before": announced}));
                            }
                            Ok(acc) => {
                                if acc != want {
                                    out.set_history(ctx.clone());
                                    out.violation("insert-block-acceptance", None, json!({"expected_accept": want, "observed": acc, "header_announced_before": announced}));
                                } else {
                                    out.count("insert_block_agreements");
                                    if announced {
                                        out.count("insert_block_agreements_with_the_header_announced_before");
                                    }
                                }
                            }
                        }
                    }
                }
            }
        }
        out.count(if n % 2 == 1 { "odd_transaction_counts" } else { "even_transaction_counts" });
        if n.is_power_of_two() {
            out.count("power_of_two_transaction_counts");
        }
    }
    out.distinct = distinct;
    out.leaves = 1;
    out.samples.push(json!({"transactions": 3, "mutation": "repeat last 1", "root": "left alone", "expected": "rejected: DuplicateTransactions (CVE-2012-2459)"}));
    out.samples.push(json!({"transactions": 6, "mutation": "repeat last 2", "root": "left alone", "expected": "rejected: DuplicateTransactions"}));
    rep.out.merge(out);
    rep.evaluations = rep.out.states;
    rep.rule = "for n = 1..17 (quick) / 1..65 (thorough) transactions (legacy and segwit): the valid block; repetition of the trailing 2^k leaves for every k (all merkle-preserving duplications and their non-preserving siblings), the same with the copies' witnesses altered (same txid, other wtxid), closed under composition to depth 2; every removal, adjacent swap, rotation; coinbase moved, duplicated, second coinbase; a duplicate in the middle; the empty list; each with the header's root left alone and recomputed (header re-mined); through BlockValidator::validate_block and state::insert_block (on a fresh canister, on one that was announced the block's header before, and the valid block right after a rejected variant with the same header); distinct = distinct block bytes".into();
    rep.bounds = json!({"tier": tier, "max_transactions": max_n});
    rep.assume("reference: independent merkle routine + the four clauses of the statement");
    rep.assume("transactions that differ only in signature data (same ntxid) cannot occur in a transaction-valid block and are not judged");
    rep.floor("merkle_preserving_duplications_rejected", 15);
    rep.floor("merkle_preserving_duplications_with_altered_witnesses_rejected", 10);
    rep.floor("accepted_variants", 100);
    rep.floor("rejected_variants", 500);
    rep.floor("insert_block_agreements", 500);
    rep.floor("valid_block_accepted_after_its_rejected_twin", 100);
    rep.floor("insert_block_agreements_with_the_header_announced_before", 250);
    rep.finish()
}

//! C18 — watchdog HTTP transforms are total, canonical and strip everything else.
use crate::engine::Out;
use crate::report::Report;
use crate::util::{fp64, guarded};
use candid::Nat;
use ic_management_canister_types::{HttpHeader, HttpRequestResult, TransformArgs};
use serde_json::json;
use std::collections::HashSet;
use watchdog::verif_hooks as wd;

/// A tiny JSON AST rendered by the harness itself (so the expected value is known
/// without parsing).
#[derive(Clone, Debug, PartialEq)]
pub enum J {
    Null,
    True,
    Num(&'static str),
    Str(&'static str),
    Arr(Vec<J>),
    Obj(Vec<(&'static str, J)>),
}

#[derive(Clone, Copy)]
pub enum Style {
    Compact,
    Spaced,
    Pretty,
    Weird,
}

pub fn render(j: &J, st: Style) -> String {
    let (sep, colon, open_pad) = match st {
        Style::Compact => (",", ":", ""),
        Style::Spaced => (", ", ": ", ""),
        Style::Pretty => (",\n  ", " : ", "\n  "),
        Style::Weird => (" ,\t", "\r\n:\t", " "),
    };
    match j {
        J::Null => "null".into(),
        J::True => "true".into(),
        J::Num(n) => n.to_string(),
        J::Str(s) => format!("\"{}\"", s),
        J::Arr(v) => format!(
            "[{}{}{}]",
            open_pad,
            v.iter().map(|x| render(x, st)).collect::<Vec<_>>().join(sep),
            open_pad
        ),
        J::Obj(m) => format!(
            "{{{}{}{}}}",
            open_pad,
            m.iter()
                .map(|(k, v)| format!("\"{}\"{}{}", k, colon, render(v, st)))
                .collect::<Vec<_>>()
                .join(sep),
            open_pad
        ),
    }
}

/// The u64 a height literal denotes, if it is a plain non-negative integer below 2^64.
fn literal_u64(j: &J) -> Option<u64> {
    if let J::Num(s) = j {
        if !s.is_empty() && s.bytes().all(|b| b.is_ascii_digit()) && (s.len() == 1 || !s.starts_with('0')) {
            return s.parse::<u64>().ok();
        }
    }
    None
}

fn exotic(j: &J) -> bool {
    match j {
        J::Num(s) => *s == "1e400" || *s == "-1e400",
        J::Arr(v) => v.iter().any(exotic),
        J::Obj(m) => m.iter().any(|(_, v)| exotic(v)),
        _ => false,
    }
}

fn leaves() -> Vec<J> {
    vec![
        J::Null,
        J::True,
        J::Num("0"),
        J::Num("1"),
        J::Num("-1"),
        J::Num("1.5"),
        J::Num("1e400"),
        J::Num("18446744073709551615"),
        J::Num("18446744073709551616"),
        J::Num("800000"),
        J::Str("s"),
        J::Str("800000"),
        J::Arr(vec![]),
        J::Obj(vec![]),
        J::Arr(vec![J::Num("7")]),
        J::Obj(vec![("height", J::Num("7"))]),
    ]
}

/// (kind of extraction, builder of the document around the extracted value)
#[derive(Clone, Copy, PartialEq, Debug)]
pub enum Shape {
    /// json[0]["height"]
    FirstOfArray,
    /// json["data"]["best_block_height"]
    DataBest,
    /// json["height"]
    TopHeight,
    /// the body is the number as text
    Text,
}

fn shape_of(name: &str) -> Shape {
    if name.contains("bitcore") {
        Shape::FirstOfArray
    } else if name.contains("blockchair") {
        Shape::DataBest
    } else if name.contains("blockcypher") {
        Shape::TopHeight
    } else {
        Shape::Text
    }
}

/// Documents for a JSON shape: (document, candidates for the extracted value: first/last on duplicate keys).
fn json_documents(shape: Shape) -> Vec<(J, Vec<Option<J>>)> {
    let mut docs: Vec<(J, Vec<Option<J>>)> = vec![];
    let key = match shape {
        Shape::FirstOfArray | Shape::TopHeight => "height",
        Shape::DataBest => "best_block_height",
        Shape::Text => unreachable!(),
    };
    let wrap = |inner: J| -> J {
        match shape {
            Shape::FirstOfArray => J::Arr(vec![inner]),
            Shape::DataBest => J::Obj(vec![("data", inner)]),
            _ => inner,
        }
    };
    for v in leaves() {
        // value at the path, alone
        docs.push((wrap(J::Obj(vec![(key, v.clone())])), vec![Some(v.clone())]));
        // with extra members, both orders
        docs.push((wrap(J::Obj(vec![("hash", J::Str("s")), (key, v.clone()), ("time", J::Num("1"))])), vec![Some(v.clone())]));
        docs.push((wrap(J::Obj(vec![(key, v.clone()), ("hash", J::Str("s"))])), vec![Some(v.clone())]));
        // next to the path (wrong key) and instead of the container
        docs.push((wrap(J::Obj(vec![("heigh", v.clone())])), vec![None]));
        docs.push((wrap(v.clone()), vec![match (&v, shape) {
            (J::Obj(m), _) => m.iter().find(|(k, _)| *k == key).map(|(_, x)| x.clone()),
            _ => None,
        }]));
        docs.push((v.clone(), vec![match (&v, shape) {
            (J::Obj(m), Shape::TopHeight) => m.iter().find(|(k, _)| *k == key).map(|(_, x)| x.clone()),
            (J::Arr(a), Shape::FirstOfArray) => a.first().and_then(|f| if let J::Obj(m) = f { m.iter().find(|(k, _)| *k == key).map(|(_, x)| x.clone()) } else { None }),
            _ => None,
        }]));
        // duplicate keys: either reading
        docs.push((
            wrap(J::Obj(vec![(key, v.clone()), (key, J::Num("5"))])),
            vec![Some(v.clone()), Some(J::Num("5"))],
        ));
    }
    match shape {
        Shape::FirstOfArray => {
            docs.push((J::Arr(vec![]), vec![None]));
            docs.push((J::Arr(vec![J::Obj(vec![("height", J::Num("3"))]), J::Obj(vec![("height", J::Num("4"))])]), vec![Some(J::Num("3"))]));
            docs.push((J::Obj(vec![("0", J::Obj(vec![("height", J::Num("3"))]))]), vec![None]));
        }
        Shape::DataBest => {
            docs.push((J::Obj(vec![("data", J::Null)]), vec![None]));
            docs.push((J::Obj(vec![("best_block_height", J::Num("3"))]), vec![None]));
            docs.push((J::Obj(vec![("data", J::Arr(vec![J::Obj(vec![("best_block_height", J::Num("3"))])]))]), vec![None]));
        }
        _ => {}
    }
    docs
}

/// Member names that real explorer answers carry next to the extracted one (blockchair stats,
/// bitcore / blockcypher block and chain objects): a transform tempted to fall back on one of
/// them would make the result depend on "members other than the one extracted".
const SIBLING_NAMES: [&str; 20] = [
    "blocks", "transactions", "best_block_hash", "best_block_time", "mempool_transactions", "difficulty",
    "hash", "time", "version", "size", "nonce", "bits", "confirmations", "transactionCount",
    "previousBlockHash", "name", "peer_count", "last_fork_height", "block_height", "tip_height",
];

/// For every leaf value at the extracted path: one realistic sibling member with a tempting
/// number (0, 1, 800001), in front of and behind the extracted member, at the same level and
/// one level up.
fn sibling_documents(shape: Shape) -> Vec<(J, Option<J>)> {
    let key = match shape {
        Shape::FirstOfArray | Shape::TopHeight => "height",
        Shape::DataBest => "best_block_height",
        Shape::Text => unreachable!(),
    };
    let wrap = |inner: J| -> J {
        match shape {
            Shape::FirstOfArray => J::Arr(vec![inner]),
            Shape::DataBest => J::Obj(vec![("data", inner)]),
            _ => inner,
        }
    };
    let mut docs = vec![];
    for v in leaves() {
        for name in SIBLING_NAMES {
            if name == key {
                continue;
            }
            for n in ["0", "1", "800001"] {
                docs.push((wrap(J::Obj(vec![(name, J::Num(n)), (key, v.clone())])), Some(v.clone())));
                docs.push((wrap(J::Obj(vec![(key, v.clone()), (name, J::Num(n))])), Some(v.clone())));
                // the extracted member missing altogether
                docs.push((wrap(J::Obj(vec![(name, J::Num(n))])), None));
            }
        }
    }
    docs
}

fn text_bodies() -> Vec<Vec<u8>> {
    let alphabet: Vec<u8> = vec![b'0', b'1', b'9', b'+', b'-', b' ', b'\n', b'.', b'e', b'a', 0xff];
    let mut all: Vec<Vec<u8>> = vec![vec![]];
    let mut frontier: Vec<Vec<u8>> = vec![vec![]];
    for _ in 0..4 {
        let mut nf = vec![];
        for f in &frontier {
            for a in &alphabet {
                let mut n = f.clone();
                n.push(*a);
                nf.push(n);
            }
        }
        all.extend(nf.iter().cloned());
        frontier = nf;
    }
    for s in ["18446744073709551615", "18446744073709551616", "007", "800000", "800000\n", " 800000", "+800000", "0x10", "8e5", "800000.0", "٣"] {
        all.push(s.as_bytes().to_vec());
    }
    all
}

fn header_sets() -> Vec<Vec<HttpHeader>> {
    let h = |n: &str, v: &str| HttpHeader { name: n.into(), value: v.into() };
    // headers a server or a CDN really sends and that a transform might be tempted to look
    // at (content negotiation, length, encoding, caching, redirects, rate limits), with names
    // in different cases; all subsets of size <= 2 of this alphabet, plus bulk sets
    let alphabet = vec![
        h("Content-Type", "application/json"),
        h("content-type", "application/json; charset=utf-8"),
        h("Content-Type", "text/plain"),
        h("CONTENT-TYPE", "text/html; charset=UTF-8"),
        h("content-type", "application/octet-stream"),
        h("Content-Type", ""),
        h("Content-Length", "0"),
        h("content-length", "999999"),
        h("Content-Encoding", "gzip"),
        h("Transfer-Encoding", "chunked"),
        h("Cache-Control", "no-store"),
        h("ETag", "\"abc\""),
        h("Retry-After", "120"),
        h("Location", "https://example.org/"),
        h("X-RateLimit-Remaining", "0"),
        h("Date", "Mon, 01 Jan 2024 00:00:00 GMT"),
        h("Set-Cookie", "a=1"),
        h("", ""),
    ];
    let mut sets: Vec<Vec<HttpHeader>> = vec![vec![]];
    for a in &alphabet {
        sets.push(vec![a.clone()]);
    }
    for i in 0..alphabet.len() {
        for j in 0..alphabet.len() {
            if i != j {
                sets.push(vec![alphabet[i].clone(), alphabet[j].clone()]);
            }
        }
    }
    sets.push(vec![h("Set-Cookie", "a=1"), h("Set-Cookie", "a=2")]);
    sets.push((0..50).map(|i| h(&format!("X-H{}", i), &format!("{}", i))).collect());
    sets.push(alphabet);
    sets
}

fn statuses() -> Vec<Nat> {
    vec![
        Nat::from(0u64),
        Nat::from(199u64),
        Nat::from(200u64),
        Nat::from(201u64),
        Nat::from(404u64),
        Nat::from(500u64),
        Nat::from(u64::MAX) + Nat::from(1u64),
    ]
}

fn canonical(n: Option<u64>) -> Vec<u8> {
    match n {
        Some(n) => format!("{{\"height\":{}}}", n).into_bytes(),
        None => b"{\"height\":null}".to_vec(),
    }
}

fn looks_canonical(b: &[u8]) -> bool {
    if b.is_empty() || b == b"{\"height\":null}" {
        return true;
    }
    let s = match std::str::from_utf8(b) {
        Ok(s) => s,
        Err(_) => return false,
    };
    if let Some(rest) = s.strip_prefix("{\"height\":") {
        if let Some(num) = rest.strip_suffix('}') {
            return !num.is_empty()
                && num.bytes().all(|c| c.is_ascii_digit())
                && (num.len() == 1 || !num.starts_with('0'))
                && num.parse::<u64>().is_ok();
        }
    }
    false
}

type Tf = Box<dyn Fn(TransformArgs) -> HttpRequestResult>;

fn all_transforms() -> Vec<(String, Tf)> {
    let mut v: Vec<(String, Tf)> = vec![];
    for (name, f) in wd::transforms() {
        v.push((name.to_string(), Box::new(f)));
    }
    // the testnet mempool endpoint has its own configuration object
    v.push((
        "endpoint:bitcoin_mempool_testnet".to_string(),
        Box::new(|raw| wd::endpoint_transform("bitcoin_mempool_testnet", raw).expect("known provider")),
    ));
    v
}

fn apply(out: &mut Out, name: &str, f: &Tf, status: &Nat, headers: &[HttpHeader], body: &[u8], ctx: &str) -> Option<HttpRequestResult> {
    let args = TransformArgs {
        response: HttpRequestResult {
            status: status.clone(),
            headers: headers.to_vec(),
            body: body.to_vec(),
        },
        context: vec![],
    };
    out.states += 1;
    match guarded(|| f(args)) {
        Err(p) => {
            out.set_history(json!({"transform": name, "status": status.to_string(), "body": String::from_utf8_lossy(body), "ctx": ctx}));
            out.violation("transform-trap", None, json!({"panic": p}));
            None
        }
        Ok(r) => {
            let mut bad = vec![];
            if !r.headers.is_empty() {
                bad.push("headers not stripped");
            }
            if r.status != *status {
                bad.push("status changed");
            }
            if !looks_canonical(&r.body) {
                bad.push("body neither empty nor canonical");
            }
            if *status != Nat::from(200u64) && !r.body.is_empty() {
                bad.push("non-200 response with a body");
            }
            if !bad.is_empty() {
                out.set_history(json!({"transform": name, "status": status.to_string(), "body": String::from_utf8_lossy(body), "ctx": ctx}));
                out.violation("transform-shape", None, json!({"problems": bad, "result_body": String::from_utf8_lossy(&r.body)}));
            }
            Some(r)
        }
    }
}

pub fn run(tier: &str) -> i32 {
    let mut rep = Report::new("C18", tier, "exploration");
    let quick = tier == "quick";
    let mut out = Out::default();
    let mut distinct: HashSet<u64> = HashSet::new();
    let ok = Nat::from(200u64);
    let hsets = header_sets();
    let styles = [Style::Compact, Style::Spaced, Style::Pretty, Style::Weird];
    for (name, f) in all_transforms() {
        let shape = shape_of(&name);
        // statuses x header sets on a fixed good body
        let good: Vec<u8> = match shape {
            Shape::Text => b"800000".to_vec(),
            Shape::FirstOfArray => b"[{\"height\":800000}]".to_vec(),
            Shape::DataBest => b"{\"data\":{\"best_block_height\":800000}}".to_vec(),
            Shape::TopHeight => b"{\"height\":800000}".to_vec(),
        };
        for st in statuses() {
            let mut results = vec![];
            for hs in &hsets {
                if let Some(r) = apply(&mut out, &name, &f, &st, hs, &good, "status x headers") {
                    results.push(r.body);
                }
            }
            if results.windows(2).any(|w| w[0] != w[1]) {
                out.violation("result-depends-on-headers", None, json!({"transform": name}));
            }
            if st == ok && results.first().map(|b| b != &canonical(Some(800000))).unwrap_or(false) {
                out.set_history(json!({"transform": name, "body": String::from_utf8_lossy(&good)}));
                out.violation("good-body-not-extracted", None, json!({"result": results.first().map(|b| String::from_utf8_lossy(b).to_string())}));
            }
        }
        // long bodies: every length up to 1300 bytes built from 1-, 2-, 3- and 4-byte
        // characters with 0-3 bytes of ASCII padding in front (valid UTF-8, not JSON, not a
        // number), and the same text inside an extra member of a valid document
        let max_len = if quick { 700 } else { 2600 };
        for unit in ["a", "\u{e9}", "\u{20ac}", "\u{1f600}"] {
            for pad in 0..4usize {
                let mut n = pad;
                let mut body = "<".repeat(pad);
                while n <= max_len {
                    out.count("long_bodies");
                    let _ = distinct.insert(fp64(body.as_bytes()));
                    if let Some(r) = apply(&mut out, &name, &f, &ok, &hsets[0], body.as_bytes(), "long non-JSON body") {
                        if !r.body.is_empty() {
                            out.set_history(json!({"transform": name, "unit": unit, "pad": pad, "len": body.len()}));
                            out.violation("long-garbage-not-refused", None, json!({"result": String::from_utf8_lossy(&r.body)}));
                        }
                    }
                    if shape != Shape::Text && (n % 7 == 0) {
                        let doc = match shape {
                            Shape::FirstOfArray => format!("[{{\"pad\":\"{}\",\"height\":800000}}]", body.replace('<', "x")),
                            Shape::DataBest => format!("{{\"data\":{{\"best_block_height\":800000,\"pad\":\"{}\"}}}}", body.replace('<', "x")),
                            _ => format!("{{\"pad\":\"{}\",\"height\":800000}}", body.replace('<', "x")),
                        };
                        if let Some(r) = apply(&mut out, &name, &f, &ok, &hsets[0], doc.as_bytes(), "long valid document") {
                            if r.body != canonical(Some(800000)) {
                                out.set_history(json!({"transform": name, "unit": unit, "pad": pad, "len": doc.len()}));
                                out.violation("long-document-not-extracted", None, json!({"result": String::from_utf8_lossy(&r.body)}));
                            }
                        }
                    }
                    body.push_str(unit);
                    n += unit.len();
                }
            }
        }
        match shape {
            Shape::Text => {
                for body in text_bodies() {
                    distinct.insert(fp64(&body));
                    let r = apply(&mut out, &name, &f, &ok, &hsets[1], &body, "text body");
                    let Some(r) = r else { continue };
                    // reference: an optional '+' is undecided, otherwise digits only
                    let s = std::str::from_utf8(&body).ok();
                    let plain = s.map(|s| !s.is_empty() && s.bytes().all(|c| c.is_ascii_digit())).unwrap_or(false);
                    let plus = s.map(|s| s.len() > 1 && s.starts_with('+') && s[1..].bytes().all(|c| c.is_ascii_digit())).unwrap_or(false);
                    let val = s.and_then(|s| s.trim_start_matches('+').parse::<u64>().ok());
                    let want: Vec<Vec<u8>> = if plain {
                        match val {
                            Some(v) => vec![canonical(Some(v))],
                            None => vec![vec![]], // out of range
                        }
                    } else if plus {
                        match val {
                            Some(v) => vec![canonical(Some(v)), vec![]],
                            None => vec![vec![]],
                        }
                    } else {
                        vec![vec![]]
                    };
                    if !want.contains(&r.body) {
                        out.set_history(json!({"transform": name, "body": String::from_utf8_lossy(&body)}));
                        out.violation("text-extraction", None, json!({"result": String::from_utf8_lossy(&r.body), "expected_one_of": want.iter().map(|w| String::from_utf8_lossy(w).to_string()).collect::<Vec<_>>()}));
                    } else {
                        out.count(if r.body.is_empty() { "text_bodies_refused" } else { "text_bodies_extracted" });
                    }
                }
            }
            _ => {
                for (doc, candidates) in json_documents(shape) {
                    let mut bodies: Vec<Vec<u8>> = vec![];
                    for st in styles {
                        let text = render(&doc, st);
                        distinct.insert(fp64(text.as_bytes()));
                        for hs in [&hsets[0], &hsets[3], &hsets[hsets.len() - 1]] {
                            if let Some(r) = apply(&mut out, &name, &f, &ok, hs, text.as_bytes(), "json document") {
                                bodies.push(r.body);
                            }
                        }
                        if !quick || matches!(st, Style::Compact) {
                            // every byte prefix, and an invalid UTF-8 byte at every position
                            let bytes = text.as_bytes();
                            for n in 0..bytes.len() {
                                let _ = apply(&mut out, &name, &f, &ok, &hsets[0], &bytes[..n], "prefix");
                                let mut corrupted = bytes.to_vec();
                                corrupted.insert(n, 0xff);
                                if let Some(r) = apply(&mut out, &name, &f, &ok, &hsets[0], &corrupted, "invalid utf-8") {
                                    if !r.body.is_empty() {
                                        out.set_history(json!({"transform": name, "position": n}));
                                        out.violation("invalid-utf8-not-refused", None, json!({"result": String::from_utf8_lossy(&r.body)}));
                                    } else {
                                        out.count("invalid_utf8_bodies_refused");
                                    }
                                }
                            }
                        }
                    }
                    if bodies.windows(2).any(|w| w[0] != w[1]) {
                        out.set_history(json!({"transform": name, "document": render(&doc, Style::Compact)}));
                        out.violation("result-depends-on-whitespace-or-headers", None, json!({}));
                    }
                    let Some(got) = bodies.first() else { continue };
                    let mut want: Vec<Vec<u8>> = candidates
                        .iter()
                        .map(|c| canonical(c.as_ref().and_then(literal_u64)))
                        .collect();
                    if exotic(&doc) {
                        want.push(vec![]); // a number no f64 holds: refusing the document is fine
                    }
                    if !want.contains(got) {
                        out.set_history(json!({"transform": name, "document": render(&doc, Style::Compact)}));
                        out.violation(
                            "json-extraction",
                            None,
                            json!({"result": String::from_utf8_lossy(got), "expected_one_of": want.iter().map(|w| String::from_utf8_lossy(w).to_string()).collect::<Vec<_>>()}),
                        );
                    } else {
                        out.count(if got == b"{\"height\":null}" { "json_documents_null" } else if got.is_empty() { "json_documents_refused" } else { "json_documents_extracted" });
                    }
                }
                // realistic sibling members: the result depends on the extracted member alone
                for (doc, cand) in sibling_documents(shape) {
                    let text = render(&doc, Style::Compact);
                    distinct.insert(fp64(text.as_bytes()));
                    let Some(r) = apply(&mut out, &name, &f, &ok, &hsets[0], text.as_bytes(), "sibling members") else { continue };
                    let mut want = vec![canonical(cand.as_ref().and_then(literal_u64))];
                    if exotic(&doc) {
                        want.push(vec![]);
                    }
                    if !want.contains(&r.body) {
                        out.set_history(json!({"transform": name, "document": text}));
                        out.violation(
                            "result-depends-on-another-member",
                            None,
                            json!({"result": String::from_utf8_lossy(&r.body), "expected_one_of": want.iter().map(|w| String::from_utf8_lossy(w).to_string()).collect::<Vec<_>>()}),
                        );
                    } else {
                        out.count("documents_with_realistic_sibling_members");
                    }
                }
            }
        }
        out.leaves += 1;
    }
    out.distinct = distinct;
    out.samples.push(json!({"transform": "transform_bitcoin_mainnet_api_blockchair_com", "document": "{\"data\":{\"hash\":\"s\",\"best_block_height\":18446744073709551616,\"time\":1}}", "expected": "{\"height\":null}"}));
    out.samples.push(json!({"transform": "transform_bitcoin_mempool", "body": "800000\\n", "expected": "empty body"}));
    rep.out.merge(out);
    rep.evaluations = rep.out.states;
    rep.rule = "all 10 exported transform functions + the testnet mempool endpoint object x statuses {0,199,200,201,404,500,2^64} x header sets (all subsets of size <= 2 of 18 realistic headers, duplicates, 50 headers, all 18); text endpoints: all strings of length <= 4 over {0,1,9,+,-,space,newline,.,e,a,0xFF} plus 2^64-1, 2^64, leading zeros, trailing newline, non-ASCII digit; JSON endpoints: 16 leaf values placed at / next to / instead of the extracted path, with extra members (incl. 20 member names real explorer answers carry, with tempting numbers, also when the extracted member is missing), both member orders, duplicate keys, in 4 whitespace styles, every byte prefix, an invalid UTF-8 byte at every position; long bodies: every length up to 700 (2600 thorough) bytes of 1/2/3/4-byte characters with 0-3 bytes of ASCII padding, alone and inside an extra member of a valid document; distinct = distinct body bytes".into();
    rep.bounds = json!({"tier": tier});
    rep.assume("documents are rendered from the harness's own AST, so the expected value at the path is known without a JSON parser");
    rep.assume("duplicate keys: either occurrence may be extracted; a leading '+' in a text body and numbers beyond f64 (1e400) are undecided");
    rep.floor("text_bodies_extracted", 500);
    rep.floor("text_bodies_refused", 5000);
    rep.floor("json_documents_extracted", 100);
    rep.floor("documents_with_realistic_sibling_members", 5000);
    rep.floor("json_documents_null", 200);
    rep.floor("invalid_utf8_bodies_refused", 1000);
    rep.floor("long_bodies", 10_000);
    rep.finish()
}

//! C04 — min_confirmations cuts the view at the last sufficiently buried block.
use crate::chain::*;
use crate::engine::{explore, Limits, Out};
use crate::ledgercheck::*;
use crate::props::c01::ledger_alphabet;
use crate::refmodel::{RefModel, H32};
use crate::report::Report;
use crate::util::{fp64, short};
use crate::world::{World, WorldCfg};
use ic_btc_interface::{GetUtxosError, Network};
use serde_json::json;

pub struct C04 {
    pub limit: Option<usize>,
}

#[derive(Default)]
pub struct Mon;

/// B(c): the last block of `best` such that it and all its predecessors on `best` have a
/// stability count >= c (None if not even the anchor qualifies).
pub fn cut_block(refm: &RefModel, anchor: &H32, best: &[H32], c: u32) -> Option<H32> {
    let mut cut = None;
    for b in best {
        if refm.stability_count(anchor, b) < c as i64 {
            break;
        }
        cut = Some(*b);
    }
    cut
}

impl Oracle for C04 {
    type Mon = Mon;
    fn prop(&self) -> &'static str {
        "C04"
    }
    fn params(&self) -> serde_json::Value {
        json!({"limit": self.limit})
    }
    fn on_state(&self, w: &mut World, _mon: &mut Mon, _hist: &[Ev], out: &mut Out) {
        let anchor = w.anchor();
        if !w.refm.has(&anchor) {
            out.violation("anchor-unknown", None, json!({}));
            return;
        }
        out.distinct.insert(fp64(&crate::world::state_bytes(true)));
        let best = w.refm.best_chain(&anchor);
        let l = best.len() as u32;
        let fork_free = w.refm.leaf_paths(&anchor).len() == 1;
        let tip_h = w.refm.get(best.last().unwrap()).height;
        for c in 1..=l + 2 {
            let cut = cut_block(&w.refm, &anchor, &best, c);
            if c <= l {
                if let Some(cb) = cut {
                    if cb != *best.last().unwrap() && cb != anchor {
                        out.count("cuts_strictly_between_anchor_and_tip");
                    }
                    let hb = w.refm.get(&cb).height;
                    let at_h: Vec<H32> = w
                        .refm
                        .subtree(&anchor)
                        .into_iter()
                        .filter(|x| w.refm.get(x).height == hb + 1)
                        .collect();
                    if at_h.len() >= 2 {
                        out.count("cuts_with_competitor_at_cut_height");
                    }
                }
            }
            for a in 0..w.book.addrs.len() {
                let text = w.book.text(a).to_string();
                let r = w.utxos_all(&text, Some(c), self.limit);
                match r {
                    Err(p) => out.violation("trap", None, json!({"address": text, "c": c, "panic": p})),
                    Ok(Err(e)) => {
                        if c > l {
                            match e {
                                GetUtxosError::MinConfirmationsTooLarge { given, max } => {
                                    if given != c || max != l {
                                        out.violation(
                                            "too-large-error-fields",
                                            None,
                                            json!({"c": c, "given": given, "max": max, "expected_max": l}),
                                        );
                                    } else {
                                        out.count("too_large_refusals");
                                    }
                                }
                                other => out.violation(
                                    "wrong-error",
                                    None,
                                    json!({"c": c, "error": format!("{:?}", other)}),
                                ),
                            }
                        } else {
                            out.violation(
                                "unexpected-error",
                                None,
                                json!({"address": text, "c": c, "chain_len": l, "error": format!("{:?}", e)}),
                            );
                        }
                    }
                    Ok(Ok(paged)) => {
                        if c > l {
                            out.violation(
                                "too-large-c-answered",
                                None,
                                json!({"address": text, "c": c, "chain_len": l}),
                            );
                            continue;
                        }
                        if let Some(e) = &paged.follow_up_error {
                            out.violation(
                                "follow-up-error",
                                None,
                                json!({"address": text, "c": c, "error": format!("{:?}", e)}),
                            );
                            continue;
                        }
                        let Some(cb) = cut else {
                            out.violation("machinery:no-cut", None, json!({"c": c}));
                            continue;
                        };
                        let (tip, h) = paged.tip();
                        if tip != cb || h != w.refm.get(&cb).height {
                            out.violation(
                                "cut-tip",
                                None,
                                json!({"address": text, "c": c, "expected_tip": short(&cb),
                                       "expected_height": w.refm.get(&cb).height,
                                       "observed_tip": short(&tip), "observed_height": h}),
                            );
                            continue;
                        }
                        if fork_free && h != tip_h + 1 - c {
                            out.violation(
                                "fork-free-height",
                                None,
                                json!({"c": c, "tip_height": tip_h, "observed": h}),
                            );
                        }
                        let (exp, ledger) = match expected_at(w, &cb, a) {
                            Ok(x) => x,
                            Err(e) => {
                                out.violation("machinery:ledger", None, json!({"error": e}));
                                continue;
                            }
                        };
                        let obs = paged.all();
                        let d = diff_utxos(&exp, &obs);
                        if !d.is_clean() {
                            let f = classify(w, a, &cb, &ledger, &d);
                            out.violation(
                                "utxo-set-at-cut",
                                f,
                                json!({"address": text, "c": c, "cut": short(&cb), "diff": d.to_json()}),
                            );
                        } else {
                            out.count("filtered_answers_checked");
                            out.outcomes.insert(fp64(&[&cb[..], &[a as u8, c as u8]].concat()));
                            // does the cut hide something relative to the unfiltered view?
                            if let Ok((full, _)) = expected_at(w, best.last().unwrap(), a) {
                                if full.iter().any(|e| !exp.contains(e)) {
                                    out.count("cuts_hiding_a_creation");
                                }
                                if exp.iter().any(|e| !full.contains(e)) {
                                    out.count("cuts_hiding_a_spend");
                                }
                            }
                        }
                    }
                }
            }
        }
    }
}

pub fn run(tier: &str) -> i32 {
    let mut rep = Report::new("C04", tier, "model_checking");
    let quick = tier == "quick";
    // (net, theta, n, diffs, bodies, max_special, limit)
    let few = vec![BODY_CB, BODY_SPEND_PARENT, BODY_CHAIN, BODY_SHARED, BODY_MULTI];
    let parts: Vec<(Network, u32, usize, Vec<u8>, Vec<u8>, usize, Option<usize>)> = if quick {
        vec![
            (Network::Regtest, 2, 4, vec![1], few.clone(), 2, None),
            (Network::Regtest, 3, 4, vec![1], few.clone(), 1, Some(1)),
            (Network::Regtest, 3, 4, vec![1, 3], vec![BODY_CB, BODY_SPEND_PARENT], 1, None),
        ]
    } else {
        vec![
            (Network::Regtest, 2, 5, vec![1], few.clone(), 2, None),
            (Network::Regtest, 3, 5, vec![1], few.clone(), 2, Some(1)),
            (Network::Regtest, 4, 5, vec![1], few.clone(), 2, Some(2)),
            (Network::Regtest, 3, 5, vec![1, 3], vec![BODY_CB, BODY_SPEND_PARENT], 2, None),
            (Network::Regtest, 4, 6, vec![1], vec![BODY_CB, BODY_SPEND_PARENT], 1, None),
            (Network::Mainnet, 3, 4, vec![1, 3], few.clone(), 2, None),
            (Network::Testnet, 3, 4, vec![1], few.clone(), 2, None),
        ]
    };
    for (net, theta, n, diffs, bodies, sp, limit) in parts {
        let mut alpha = ledger_alphabet(n, &diffs, sp);
        alpha.bodies = bodies.clone();
        let m = ChainModel {
            cfg: WorldCfg::on(net, theta),
            alpha,
            oracle: C04 { limit },
        };
        let e = explore(&m, &Limits::new(2, if quick { 300 } else { 6000 }));
        rep.absorb(
            &format!("LEDGER net={} theta={} n={} D={:?} bodies={:?} special<={} limit={:?}", net, theta, n, diffs, bodies, sp, limit),
            e,
            json!({"network": net.to_string(), "threshold": theta, "max_blocks": n, "difficulties": diffs,
                   "bodies": bodies, "max_non_default_bodies": sp, "page_limit": limit.unwrap_or(1000)}),
        );
    }
    // the same on states in the middle of a sliced ingestion and after an upgrade at any
    // boundary (the anchor is then partly in the stable set)
    for (theta, n) in if quick { vec![(2u32, 3usize)] } else { vec![(2, 4), (3, 4)] } {
        let mut alpha = ledger_alphabet(n, &[1], 2);
        alpha.bodies = vec![BODY_CB, BODY_MULTI, BODY_SPEND_PARENT];
        alpha.budgets = vec![0, 1, 2];
        alpha.upgrades = vec![0];
        alpha.max_upgrades = 1;
        let m = ChainModel {
            cfg: WorldCfg::regtest(theta),
            alpha,
            oracle: C04 { limit: Some(2) },
        };
        let e = explore(&m, &Limits::new(2, if quick { 300 } else { 6000 }));
        rep.absorb(
            &format!("LEDGER sliced+upgrade theta={} n={} budgets=[unlimited,1,2] upgrades<=1", theta, n),
            e,
            json!({"network": "regtest", "threshold": theta, "max_blocks": n, "ingestion_budgets": [0, 1, 2], "max_upgrades": 1, "page_limit": 2}),
        );
    }
    rep.rule = "LEDGER/TREE histories as in C01 (equal difficulty and D={1,3}), plus a part with sliced ingestion and one upgrade at any boundary; in every state, for every book address and every c in [1, best-chain length + 2], get_utxos(min_confirmations=c) with all pages followed is compared with the ledger at B(c), B(c) recomputed from the definition of the stability count".into();
    rep.bounds = json!({"tier": tier});
    rep.assume("c = 0 / no filter belongs to C01 and C02");
    rep.floor("filtered_answers_checked", 10_000);
    rep.floor("cuts_strictly_between_anchor_and_tip", 1000);
    rep.floor("cuts_with_competitor_at_cut_height", 100);
    rep.floor("cuts_hiding_a_creation", 100);
    rep.floor("cuts_hiding_a_spend", 10);
    rep.floor("too_large_refusals", 1000);
    rep.finish()
}

//! C06 — paginated UTXO answers form one consistent snapshot.
use crate::chain::{self, Alphabet, Applied, Ev};
use crate::engine::{explore, Limits, Model, Out};
use crate::factory;
use crate::ledgercheck::*;
use crate::props::c01::ledger_alphabet;
use crate::refmodel::H32;
use crate::report::Report;
use crate::util::{fp64, short};
use crate::world::{World, WorldCfg};
use ic_btc_interface::{GetUtxosError, Network, Utxo, UtxosFilterInRequest};
use serde::Serialize;
use serde_bytes::ByteBuf;
use serde_json::{json, Value};

#[derive(Clone, Debug, Serialize, PartialEq, Eq)]
pub enum PEv {
    Base(Ev),
    /// first request of a pager: address index, page size, min_confirmations
    Start { addr: usize, limit: usize, c: Option<u32> },
    /// follow the next_page reference
    Next,
    /// something happens between two page requests
    Env(Ev),
}

pub struct Pager {
    pub addr: usize,
    pub limit: usize,
    pub first_tip: H32,
    pub first_height: u32,
    pub collected: Vec<Utxo>,
    pub next: Option<Vec<u8>>,
    pub pages: usize,
    pub straddled_stabilisation: bool,
    pub straddled_reorg: bool,
    pub ended_in_error: bool,
}

pub struct PCtx {
    pub w: World,
    pub last: Option<Applied>,
    pub pager: Option<Pager>,
    pub env_used: usize,
    pub dead: bool,
    pub done: bool,
}

pub struct C06Model {
    pub cfg: WorldCfg,
    pub base: Alphabet,
    pub env: Alphabet,
    pub max_env: usize,
    pub limits: Vec<usize>,
    pub cs: Vec<Option<u32>>,
}

impl C06Model {
    fn finish_pager(&self, s: &mut PCtx, out: &mut Out) {
        let p = s.pager.as_ref().unwrap();
        let (exp, _) = match expected_at(&s.w, &p.first_tip, p.addr) {
            Ok(x) => x,
            Err(e) => {
                out.violation("machinery:ledger", None, json!({"error": e}));
                return;
            }
        };
        let d = diff_utxos(&exp, &p.collected);
        if !d.is_clean() {
            out.violation(
                "snapshot-content",
                None,
                json!({"address": s.w.book.addrs[p.addr].name, "limit": p.limit, "first_tip": short(&p.first_tip),
                       "pages": p.pages, "diff": d.to_json()}),
            );
        } else {
            out.count("paging_runs_completed");
            out.outcomes.insert(fp64(&[p.pages as u8, p.addr as u8, p.limit as u8]));
            if p.pages >= 3 {
                out.count("paging_runs_with_three_or_more_pages");
            }
            if p.straddled_stabilisation {
                out.count("paging_runs_straddling_a_stabilisation");
            }
            if p.straddled_reorg {
                out.count("paging_runs_straddling_a_reorg");
            }
        }
    }
}

impl Model for C06Model {
    type S = PCtx;
    type Ev = PEv;

    fn init(&self) -> PCtx {
        PCtx {
            w: World::new(self.cfg.clone()),
            last: None,
            pager: None,
            env_used: 0,
            dead: false,
            done: false,
        }
    }

    fn enabled(&self, s: &PCtx, hist: &[PEv]) -> Vec<PEv> {
        if s.dead || s.done {
            return vec![];
        }
        let mut evs = vec![];
        match &s.pager {
            None => {
                let base_hist: Vec<Ev> = hist
                    .iter()
                    .filter_map(|e| if let PEv::Base(b) = e { Some(b.clone()) } else { None })
                    .collect();
                for e in self.base.enabled(&s.w, &base_hist, s.last.as_ref()) {
                    evs.push(PEv::Base(e));
                }
                if !s.w.is_ingesting() {
                    // pagers only for addresses with more UTXOs than a page
                    for a in 0..s.w.book.addrs.len() {
                        let text = s.w.book.text(a).to_string();
                        for c in &self.cs {
                            let n = match s.w.utxos_all(&text, *c, None) {
                                Ok(Ok(p)) => p.all().len(),
                                _ => 0,
                            };
                            for l in &self.limits {
                                if n > *l {
                                    evs.push(PEv::Start { addr: a, limit: *l, c: *c });
                                }
                            }
                        }
                    }
                }
            }
            Some(p) => {
                if p.next.is_some() {
                    evs.push(PEv::Next);
                    if s.env_used < self.max_env {
                        let env_hist: Vec<Ev> = hist
                            .iter()
                            .filter_map(|e| match e {
                                PEv::Base(b) | PEv::Env(b) => Some(b.clone()),
                                _ => None,
                            })
                            .collect();
                        for e in self.env.enabled(&s.w, &env_hist, s.last.as_ref()) {
                            evs.push(PEv::Env(e));
                        }
                    }
                }
            }
        }
        evs
    }

    fn apply(&self, s: &mut PCtx, ev: &PEv, check: bool, out: &mut Out) -> bool {
        match ev {
            PEv::Base(e) | PEv::Env(e) => {
                let pre_anchor = s.w.anchor();
                let pre_tip = s.w.info().ok().map(|i| i.block_hash);
                let a = chain::apply_ev(&mut s.w, e);
                if let Applied::Trap(p) = &a {
                    s.dead = true;
                    if check {
                        out.violation("trap", None, json!({"event": e, "panic": p}));
                    }
                    return false;
                }
                if matches!(ev, PEv::Env(_)) {
                    s.env_used += 1;
                    if let Some(p) = s.pager.as_mut() {
                        if s.w.anchor() != pre_anchor {
                            p.straddled_stabilisation = true;
                        }
                        let post_tip = s.w.info().ok().map(|i| i.block_hash);
                        if let (Some(a), Some(b)) = (pre_tip, post_tip) {
                            let bt: H32 = b.clone().try_into().unwrap_or([0; 32]);
                            let at: H32 = a.clone().try_into().unwrap_or([0; 32]);
                            if a != b && s.w.refm.has(&bt) && !s.w.refm.chain_to(&bt).contains(&at) {
                                p.straddled_reorg = true;
                            }
                        }
                    }
                }
                s.last = Some(a);
                true
            }
            PEv::Start { addr, limit, c } => {
                let text = s.w.book.text(*addr).to_string();
                let r = s.w.utxos_req(&text, c.map(UtxosFilterInRequest::MinConfirmations), Some(*limit));
                match r {
                    Err(p) => {
                        s.dead = true;
                        if check {
                            out.violation("trap", None, json!({"panic": p}));
                        }
                        false
                    }
                    Ok(Err(e)) => {
                        s.dead = true;
                        if check {
                            out.violation("first-request-error", None, json!({"error": format!("{:?}", e)}));
                        }
                        false
                    }
                    Ok(Ok(r)) => {
                        let tip: H32 = r.tip_block_hash.clone().try_into().unwrap_or([0xee; 32]);
                        if check && r.utxos.len() > *limit {
                            out.violation("page-too-large", None, json!({"limit": limit, "got": r.utxos.len()}));
                        }
                        s.pager = Some(Pager {
                            addr: *addr,
                            limit: *limit,
                            first_tip: tip,
                            first_height: r.tip_height,
                            collected: r.utxos.clone(),
                            next: r.next_page.map(|p| p.to_vec()),
                            pages: 1,
                            straddled_stabilisation: false,
                            straddled_reorg: false,
                            ended_in_error: false,
                        });
                        if s.pager.as_ref().unwrap().next.is_none() {
                            if check {
                                self.finish_pager(s, out);
                            }
                            s.done = true;
                        }
                        true
                    }
                }
            }
            PEv::Next => {
                let (addr, limit, token, first_tip, first_height) = {
                    let p = s.pager.as_ref().unwrap();
                    (p.addr, p.limit, p.next.clone().unwrap(), p.first_tip, p.first_height)
                };
                let text = s.w.book.text(addr).to_string();
                let tip_in_tree = s.w.tree_hashes().contains(&first_tip);
                let r = s.w.utxos_req(&text, Some(UtxosFilterInRequest::Page(ByteBuf::from(token))), Some(limit));
                match r {
                    Err(p) => {
                        s.dead = true;
                        if check {
                            out.violation("trap-on-follow-up", None, json!({"panic": p}));
                        }
                        false
                    }
                    Ok(Err(e)) => {
                        s.done = true;
                        if check {
                            let explicit = matches!(e, GetUtxosError::UnknownTipBlockHash { .. });
                            if tip_in_tree || !explicit {
                                out.violation(
                                    "follow-up-refused",
                                    None,
                                    json!({"error": format!("{:?}", e), "first_tip_still_in_tree": tip_in_tree}),
                                );
                            } else {
                                out.count("paging_runs_ending_in_the_explicit_error");
                            }
                        }
                        true
                    }
                    Ok(Ok(r)) => {
                        if check {
                            if !tip_in_tree {
                                out.violation(
                                    "follow-up-answered-for-unavailable-tip",
                                    None,
                                    json!({"first_tip": short(&first_tip)}),
                                );
                            }
                            if r.tip_block_hash != first_tip.to_vec() || r.tip_height != first_height {
                                out.violation(
                                    "page-names-another-tip",
                                    None,
                                    json!({"first_tip": short(&first_tip), "first_height": first_height,
                                           "page_tip": short(&r.tip_block_hash), "page_height": r.tip_height}),
                                );
                            }
                            if r.utxos.len() > limit {
                                out.violation("page-too-large", None, json!({"limit": limit, "got": r.utxos.len()}));
                            }
                        }
                        let p = s.pager.as_mut().unwrap();
                        p.collected.extend(r.utxos.iter().cloned());
                        p.next = r.next_page.map(|x| x.to_vec());
                        p.pages += 1;
                        // a listing of k elements needs at most ceil(k / limit) + 1 pages: a
                        // cursor that repeats would never end
                        let k = expected_at(&s.w, &first_tip, addr).map(|e| e.0.len()).unwrap_or(0);
                        let p = s.pager.as_mut().unwrap();
                        if p.pages > k.div_ceil(limit.max(1)) + 2 {
                            if check {
                                out.violation(
                                    "pagination-does-not-terminate",
                                    None,
                                    json!({"pages_so_far": p.pages, "elements_at_first_tip": k, "page_size": limit, "collected": p.collected.len()}),
                                );
                            }
                            s.dead = true;
                            s.done = true;
                            return false;
                        }
                        if p.next.is_none() {
                            if check {
                                self.finish_pager(s, out);
                            }
                            s.done = true;
                        }
                        true
                    }
                }
            }
        }
    }

    fn check(&self, _s: &mut PCtx, _hist: &[PEv], out: &mut Out) {
        out.distinct.insert(crate::world::full_fingerprint() as u64);
    }

    fn key(&self, s: &PCtx, hist: &[PEv]) -> Option<u128> {
        let mut b = crate::world::full_fingerprint().to_le_bytes().to_vec();
        let nb = hist
            .iter()
            .filter(|e| matches!(e, PEv::Base(Ev::Block { .. }) | PEv::Env(Ev::Block { .. })))
            .count() as u8;
        let sp = hist
            .iter()
            .filter(|e| matches!(e, PEv::Base(Ev::Block { body, .. }) if *body != 0))
            .count() as u8;
        let ups = hist.iter().filter(|e| matches!(e, PEv::Env(Ev::Upgrade { .. }))).count() as u8;
        b.extend([nb, sp, ups, s.env_used as u8, s.w.ids.len() as u8, s.done as u8]);
        b.push(matches!(s.last, Some(Applied::Ingest(crate::world::Ingested::DoneWork)) | Some(Applied::Ingest(crate::world::Ingested::Nothing))) as u8);
        if s.w.ids.len() > 1 {
            b.extend(s.w.ids[1]);
        }
        if let Some(p) = &s.pager {
            b.extend([p.addr as u8, p.limit as u8, p.pages as u8, p.straddled_reorg as u8, p.straddled_stabilisation as u8]);
            b.extend(p.first_tip);
            if let Some(n) = &p.next {
                b.extend(n);
            }
            for u in &p.collected {
                b.extend(key_of(u).0);
                b.extend(u.height.to_le_bytes());
            }
        }
        let h = crate::util::sha256(&b);
        Some(u128::from_le_bytes(h[..16].try_into().unwrap()))
    }

    fn sample(&self, s: &mut PCtx, hist: &[PEv]) -> Value {
        json!({"history": hist, "pages": s.pager.as_ref().map(|p| p.pages), "collected": s.pager.as_ref().map(|p| p.collected.len())})
    }
}

/// Arbitrary page blobs never trap.
fn page_blob_family(rep: &mut Report, quick: bool) {
    let mut out = Out::default();
    let mut w = World::new(WorldCfg::regtest(2));
    // a small world with a stabilised block, a discarded fork and several UTXOs for A
    let g = w.refm.genesis;
    let outs = |w: &World, n: u64| vec![factory::coinbase_tx(n, vec![(10 + n, w.book.script(factory::A)), (20 + n, w.book.script(factory::A))])];
    let b1 = { let t = outs(&w, 1); w.extend(&g, t, 1) };
    let f1 = { let t = outs(&w, 2); w.extend(&g, t, 1) }; // fork, discarded later
    let b2 = { let t = outs(&w, 3); w.extend(&b1, t, 1) };
    let b3 = { let t = outs(&w, 4); w.extend(&b2, t, 1) };
    let _ = w.ingest(None);
    let b4 = { let t = outs(&w, 5); w.extend(&b3, t, 1) };
    let _ = w.ingest(None);
    let anchor = w.anchor();
    let tips: Vec<(&str, [u8; 32])> = vec![
        ("current tip", b4),
        ("anchor", anchor),
        ("stabilised block", g),
        ("discarded block", f1),
        ("unknown", [0x5a; 32]),
        ("zeros", [0; 32]),
    ];
    let real_h = w.refm.get(&b4).height;
    let heights: Vec<u32> = vec![0, real_h, real_h + 1, real_h.saturating_sub(1), u32::MAX];
    let first = w.refm.get(&b1).txs[0].txid;
    let last = w.refm.get(&b4).txs[0].txid;
    let outpoints: Vec<([u8; 32], u32)> = vec![([0; 32], 0), (first, 0), (last, 1), ([0xff; 32], u32::MAX)];
    let mut addrs: Vec<String> = vec![w.book.text(factory::A).to_string(), w.book.text(factory::C).to_string()];
    addrs.push("not an address".into());
    addrs.push(crate::factory::Book::new(Network::Mainnet).text(0).to_string());
    let mut blobs: Vec<Vec<u8>> = (0..=80).map(|n| vec![0u8; n]).collect();
    blobs.push(vec![0xff; 72]);
    blobs.push(vec![0xff; 1000]);
    for (_, t) in &tips {
        for h in &heights {
            for (txid, vout) in &outpoints {
                let mut b = t.to_vec();
                b.extend(h.to_be_bytes().iter().map(|x| x ^ 255));
                b.extend(txid);
                b.extend(vout.to_le_bytes());
                blobs.push(b);
            }
        }
    }
    if !quick {
        // every single-byte corruption of a genuine page token
        if let Ok(Ok(r)) = w.utxos_req(w.book.text(factory::A), None, Some(1)) {
            if let Some(p) = r.next_page {
                for i in 0..p.len() {
                    for v in [0u8, 1, 0x7f, 0x80, 0xff] {
                        let mut b = p.to_vec();
                        b[i] = v;
                        blobs.push(b);
                    }
                }
            }
        }
    }
    for a in &addrs {
        for b in &blobs {
            for limit in [None, Some(1usize)] {
                out.states += 1;
                let r = w.utxos_req(a, Some(UtxosFilterInRequest::Page(ByteBuf::from(b.clone()))), limit);
                match r {
                    Err(p) => {
                        out.set_history(json!({"family": "page blobs", "address": a, "blob": hex::encode(b)}));
                        out.violation("page-blob-trap", None, json!({"panic": p, "blob_len": b.len()}));
                    }
                    Ok(Err(GetUtxosError::MalformedPage { .. })) => out.count("blobs: MalformedPage"),
                    Ok(Err(GetUtxosError::UnknownTipBlockHash { .. })) => out.count("blobs: UnknownTipBlockHash"),
                    Ok(Err(GetUtxosError::MalformedAddress)) | Ok(Err(GetUtxosError::AddressForWrongNetwork { .. })) => {
                        out.count("blobs: address error")
                    }
                    Ok(Err(e)) => {
                        out.set_history(json!({"family": "page blobs", "address": a, "blob": hex::encode(b)}));
                        out.violation("page-blob-unexpected-error", None, json!({"error": format!("{:?}", e)}));
                    }
                    Ok(Ok(resp)) => {
                        out.count("blobs: well-formed answer");
                        // a well-formed answer names a block that is in the tree
                        let t: H32 = resp.tip_block_hash.clone().try_into().unwrap_or([0; 32]);
                        if !w.tree_hashes().contains(&t) {
                            out.set_history(json!({"family": "page blobs", "address": a, "blob": hex::encode(b)}));
                            out.violation("page-blob-answer-names-unknown-tip", None, json!({}));
                        }
                    }
                }
            }
        }
    }
    out.leaves += 1;
    out.samples.push(json!({"family": "page blobs", "blobs": blobs.len(), "addresses": addrs.len()}));
    rep.out.merge(out);
}

/// The real limit of 1000: environment events at each page boundary.
fn real_limit_family(rep: &mut Report, n: usize) {
    let mut out = Out::default();
    for env in 0..4 {
        let mut w = World::new(WorldCfg::regtest(2));
        let g = w.refm.genesis;
        let outs: Vec<(u64, bitcoin::ScriptBuf)> = (0..n).map(|i| (1000 + i as u64, w.book.script(factory::A))).collect();
        let b1 = w.extend(&g, vec![factory::coinbase_tx(1, outs)], 1);
        out.set_history(json!({"family": "real page limit", "outputs": n, "env_event": env}));
        let text = w.book.text(factory::A).to_string();
        let first = match w.utxos_req(&text, None, None) {
            Ok(Ok(r)) => r,
            other => {
                out.violation("first-request", None, json!({"r": format!("{:?}", other.map(|x| x.map(|_| ())))}));
                continue;
            }
        };
        let tip: H32 = first.tip_block_hash.clone().try_into().unwrap();
        let mut collected = first.utxos.clone();
        let mut next = first.next_page.clone();
        let mut pages = 1;
        let mut tip_head = b1;
        while let Some(p) = next {
            if pages as usize > n / 1000 + 3 {
                out.violation("pagination-does-not-terminate", None, json!({"pages_so_far": pages, "outputs": n}));
                break;
            }
            // one environment event at each page boundary
            match env {
                0 => {}
                1 => {
                    tip_head = w.extend(&tip_head, vec![factory::coinbase_tx(100 + pages, vec![(5, w.book.script(factory::A))])], 1);
                }
                2 => {
                    let _ = w.extend(&g, vec![factory::coinbase_tx(200 + pages, vec![(5, w.book.script(factory::A))])], 3);
                }
                _ => {
                    let _ = w.upgrade(None);
                }
            }
            let in_tree = w.tree_hashes().contains(&tip);
            match w.utxos_req(&text, Some(UtxosFilterInRequest::Page(p)), None) {
                Ok(Ok(r)) => {
                    if r.tip_block_hash != tip.to_vec() {
                        out.violation("page-names-another-tip", None, json!({"page": pages}));
                    }
                    if r.utxos.len() > 1000 {
                        out.violation("page-too-large", None, json!({"got": r.utxos.len()}));
                    }
                    collected.extend(r.utxos.iter().cloned());
                    next = r.next_page.clone();
                    pages += 1;
                }
                Ok(Err(e)) => {
                    if in_tree {
                        out.violation("follow-up-refused", None, json!({"error": format!("{:?}", e)}));
                    }
                    next = None;
                }
                Err(p) => {
                    out.violation("trap-on-follow-up", None, json!({"panic": p}));
                    next = None;
                }
            }
        }
        if let Ok((exp, _)) = expected_at(&w, &tip, factory::A) {
            let d = diff_utxos(&exp, &collected);
            if !d.is_clean() {
                out.violation("snapshot-content", None, json!({"outputs": n, "env": env, "pages": pages, "diff_missing": d.missing.len(), "diff_surplus": d.surplus.len(), "dups": d.duplicates}));
            } else {
                out.count("real_limit_runs_completed");
            }
        }
        out.states += pages;
        out.leaves += 1;
    }
    rep.out.merge(out);
}

/// Wide-transaction family: one transaction pays `n` outputs to one address (vout beyond
/// one byte); the pager uses page size `limit`; after page `stabilise_after` the block is
/// buried and ingested, so the remaining pages are served from the stable index.
fn wide_tx_family(rep: &mut Report, n: usize, limit: usize) {
    let mut out = Out::default();
    let pages_total = n.div_ceil(limit);
    for stabilise_after in 0..=pages_total {
        // theta = 3 and two blocks on top of the wide block: the pager's tip (c2) stays in
        // the tree (as the anchor) when the wide block is ingested later
        let mut w = World::new(WorldCfg::regtest(3));
        let g = w.refm.genesis;
        let outs: Vec<(u64, bitcoin::ScriptBuf)> = (0..n).map(|i| (1000 + i as u64, w.book.script(factory::A))).collect();
        let b1 = w.extend(&g, vec![factory::coinbase_tx(1, outs)], 1);
        let c1 = w.extend(&b1, vec![factory::coinbase_tx(2, vec![(5, w.book.script(factory::B))])], 1);
        let c2 = w.extend(&c1, vec![factory::coinbase_tx(3, vec![(5, w.book.script(factory::B))])], 1);
        let text = w.book.text(factory::A).to_string();
        out.set_history(json!({"family": "wide transaction", "outputs": n, "page_size": limit, "stabilised_after_page": stabilise_after}));
        let mut collected: Vec<Utxo> = vec![];
        let mut next: Option<Vec<u8>> = None;
        let mut first_tip: Option<Vec<u8>> = None;
        let mut page = 0usize;
        let mut tip = c2;
        loop {
            if page == stabilise_after {
                // bury further and ingest: the wide block moves from the unstable bookkeeping
                // to the stable index
                for k in 0..2u64 {
                    tip = w.extend(&tip, vec![factory::coinbase_tx(50 + k, vec![(5, w.book.script(factory::B))])], 1);
                }
                let _ = w.ingest(None);
                if w.stable_height() < 2 {
                    out.violation("machinery:wide-family-setup", None, json!({"stable_height": w.stable_height()}));
                }
            }
            let filter = next.clone().map(|p| UtxosFilterInRequest::Page(ByteBuf::from(p)));
            let first_tip_in_tree = first_tip.as_ref().map(|t| w.tree_hashes().iter().any(|h| h.to_vec() == *t)).unwrap_or(true);
            match w.utxos_req(&text, filter, Some(limit)) {
                Ok(Ok(r)) => {
                    if first_tip.is_none() {
                        first_tip = Some(r.tip_block_hash.clone());
                    }
                    collected.extend(r.utxos.iter().cloned());
                    next = r.next_page.map(|p| p.to_vec());
                    page += 1;
                    out.states += 1;
                    if next.is_none() {
                        break;
                    }
                    // (finding F10 re-lists up to n elements: twice the pages at most)
                    if page > 2 * pages_total + 3 {
                        out.violation("pagination-does-not-terminate", None, json!({"pages_so_far": page, "outputs": n, "page_size": limit}));
                        break;
                    }
                }
                Ok(Err(e)) => {
                    if first_tip_in_tree {
                        out.violation("follow-up-refused", None, json!({"error": format!("{:?}", e), "page": page}));
                    } else {
                        out.count("wide_runs_ending_in_the_explicit_error");
                    }
                    collected.clear();
                    break;
                }
                Err(p) => {
                    out.violation("trap-on-follow-up", None, json!({"panic": p, "page": page}));
                    collected.clear();
                    break;
                }
            }
        }
        if let Some(ft) = first_tip {
            let ft: H32 = ft.try_into().unwrap();
            if !collected.is_empty() {
                if let Ok((exp, _)) = expected_at(&w, &ft, factory::A) {
                    let d = diff_utxos(&exp, &collected);
                    if !d.is_clean() {
                        // signature of finding F10: only elements of the wide transaction,
                        // each missing element has vout >= 256 or is shadowed by one
                        // (with other page sizes the same cursor mix-up re-lists elements
                        // instead: duplicates, nothing missing)
                        let f10 = d.wrong_height.is_empty()
                            && d.wrong_value.is_empty()
                            && d.surplus.is_empty()
                            && n > 256
                            && stabilise_after > 0
                            && stabilise_after < pages_total
                            && (!d.missing.is_empty() || d.duplicates > 0)
                            && d.missing.iter().all(|m| m.0 .1 >= 256);
                        out.violation(
                            "snapshot-content",
                            if f10 { Some("F10") } else { None },
                            json!({"outputs": n, "page_size": limit, "stabilised_after_page": stabilise_after,
                                   "missing": d.missing.len(), "duplicates": d.duplicates, "surplus": d.surplus.len(),
                                   "first_missing_vout": d.missing.first().map(|m| m.0 .1)}),
                        );
                    } else {
                        out.count("wide_transaction_runs_completed");
                    }
                }
            }
        }
        out.leaves += 1;
    }
    rep.out.merge(out);
}

/// Replays one recorded family instance (wide transaction / real limit) without the rest of
/// the tier. None if the history is not a family history.
pub fn replay_family(hist: &Value, tier: &str) -> Option<i32> {
    let fam = hist["family"].as_str()?;
    let mut rep = Report::new("C06", tier, "model_checking");
    match fam {
        "wide transaction" => {
            let n = hist["outputs"].as_u64()? as usize;
            let l = hist["page_size"].as_u64()? as usize;
            wide_tx_family(&mut rep, n, l);
        }
        "real page limit" => {
            let n = hist["outputs"].as_u64()? as usize;
            real_limit_family(&mut rep, n);
        }
        _ => return None,
    }
    Some(rep.finish())
}

pub fn run(tier: &str) -> i32 {
    let mut rep = Report::new("C06", tier, "model_checking");
    let quick = tier == "quick";
    // (theta, base n, base special, env max, diffs)
    let parts: Vec<(u32, usize, usize, usize)> = if quick {
        vec![(1, 4, 2, 1), (2, 3, 2, 1)]
    } else {
        vec![(1, 4, 3, 2), (2, 4, 2, 2), (2, 5, 2, 1), (3, 5, 2, 1)]
    };
    for (theta, n, sp, max_env) in parts {
        let mut base = ledger_alphabet(n, &[1], sp);
        base.bodies = vec![chain::BODY_CB, chain::BODY_MULTI, chain::BODY_SPEND_PARENT, chain::BODY_ZEROS];
        let mut env = Alphabet::tree(n + max_env, &[1, 3]);
        env.budgets = vec![0, 1];
        env.upgrades = vec![0];
        env.max_upgrades = 1;
        let m = C06Model {
            cfg: WorldCfg::regtest(theta),
            base,
            env,
            max_env,
            limits: vec![1, 2],
            cs: vec![None, Some(1), Some(2)],
        };
        let e = explore(&m, &Limits::new(2, if quick { 300 } else { 6000 }));
        rep.absorb(
            &format!("PAGER theta={} base n={} special<={} env events<={}", theta, n, sp, max_env),
            e,
            json!({"threshold": theta, "base_blocks": n, "max_env_events_between_pages": max_env, "page_sizes": [1, 2],
                   "first_request_filters": ["none", "min_confirmations=1", "min_confirmations=2"]}),
        );
    }
    page_blob_family(&mut rep, quick);
    let sizes: Vec<usize> = if quick { vec![2001] } else { vec![1001, 2001, 2500] };
    for n in &sizes {
        real_limit_family(&mut rep, *n);
    }
    let wide: Vec<(usize, usize)> = if quick { vec![(300, 100), (200, 64)] } else { vec![(300, 100), (200, 64), (600, 256), (258, 1), (1300, 1000)] };
    for (n, l) in &wide {
        wide_tx_family(&mut rep, *n, *l);
    }
    rep.parts.push(json!({"part": "page blobs (lengths 0..80, tip x height x outpoint product), real-limit family, wide-transaction family (one transaction with up to 1300 outputs to one address, block stabilised between pages)", "real_limit_outputs": sizes, "wide": wide}));
    rep.rule = "from every LEDGER state a pager issues a first request (no filter, min_confirmations 1 and 2) for every address with more UTXOs than the page size (1 or 2 through the hook) and follows next_page; between two page requests the environment may take any event of the chain alphabet (block on any live block with difficulty 1 or 3: tip growth, competing fork, fork that makes the pager's chain lose; unsliced or 1-step ingestion; upgrade), all placements of <= k such events; plus arbitrary page blobs and the real 1000 limit".into();
    rep.bounds = json!({"tier": tier});
    rep.assume("page size 1/2 through the cfg-guarded hook; the constant 1000 is exercised by the real-limit family");
    rep.floor("paging_runs_completed", 1000);
    rep.floor("paging_runs_with_three_or_more_pages", 100);
    rep.floor("paging_runs_straddling_a_stabilisation", 20);
    rep.floor("paging_runs_straddling_a_reorg", 20);
    rep.floor("paging_runs_ending_in_the_explicit_error", 5);
    rep.floor("blobs: MalformedPage", 100);
    rep.floor("blobs: UnknownTipBlockHash", 50);
    rep.floor("blobs: well-formed answer", 20);
    rep.floor("real_limit_runs_completed", 4);
    rep.finish()
}

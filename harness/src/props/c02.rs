//! C02 — every endpoint serves the heaviest chain and agrees on its tip.
use crate::chain::*;
use crate::engine::{explore, Limits, Out};
use crate::factory::{A, B};
use crate::refmodel::{RefModel, H32};
use crate::report::Report;
use crate::util::{fp64, short};
use crate::world::{World, WorldCfg};
use ic_btc_interface::Network;
use serde_json::json;

pub struct C02;

#[derive(Default)]
pub struct Mon {
    prev_tip: Option<H32>,
    cur_tip: Option<H32>,
}

/// The block at which the unfiltered get_utxos walk of finding F1 stops: the last block
/// of the best chain such that it and all its predecessors on that chain have a
/// stability count >= 0.
pub fn f1_stop_block(refm: &RefModel, anchor: &H32, best: &[H32]) -> H32 {
    let mut stop = best[0];
    for b in best {
        if refm.stability_count(anchor, b) < 0 {
            break;
        }
        stop = *b;
    }
    stop
}

impl Oracle for C02 {
    type Mon = Mon;
    fn prop(&self) -> &'static str {
        "C02"
    }

    fn on_transition(
        &self,
        w: &mut World,
        mon: &mut Mon,
        _ev: &Ev,
        _pre: &Snap,
        _applied: &Applied,
        _check: bool,
        _out: &mut Out,
    ) {
        // monitors are maintained here because replays do not evaluate state oracles
        let anchor = w.anchor();
        mon.prev_tip = mon.cur_tip;
        mon.cur_tip = if w.refm.has(&anchor) {
            w.refm.best_chain(&anchor).last().copied()
        } else {
            None
        };
    }

    fn on_state(&self, w: &mut World, mon: &mut Mon, _hist: &[Ev], out: &mut Out) {
        let anchor = w.anchor();
        if !w.refm.has(&anchor) {
            out.violation("anchor-unknown", None, json!({"anchor": short(&anchor)}));
            return;
        }
        let best = w.refm.best_chain(&anchor);
        let tip = *best.last().unwrap();
        let rt = w.refm.get(&tip).clone();
        out.outcomes.insert(fp64(&tip));
        out.distinct.insert(fp64(&crate::world::state_bytes(true)));

        // non-vacuity
        let paths = w.refm.leaf_paths(&anchor);
        let longest = paths.iter().map(|p| p.len()).max().unwrap();
        if paths.len() >= 2 {
            out.count("states_with_fork");
        }
        if best.len() < longest {
            out.count("states_best_shorter_than_longest");
        }
        let kb = (w.refm.path_weight(&best), best.len());
        if paths
            .iter()
            .filter(|p| (w.refm.path_weight(p), p.len()) == kb)
            .count()
            >= 2
        {
            out.count("states_exact_tie_decided_by_arrival");
        }
        if let Some(pt) = mon.prev_tip {
            if pt != tip && !w.refm.chain_to(&tip).contains(&pt) {
                out.count("reorg_transitions");
            }
        }

        // get_blockchain_info
        match w.info() {
            Err(p) => out.violation("info-trap", None, json!({"panic": p})),
            Ok(i) => {
                let ok = i.height == rt.height
                    && i.block_hash == tip.to_vec()
                    && i.timestamp == rt.time
                    && i.difficulty == rt.difficulty;
                if !ok {
                    out.violation(
                        "info-tip",
                        None,
                        json!({
                            "expected": {"height": rt.height, "hash": short(&tip), "time": rt.time, "difficulty": rt.difficulty.to_string()},
                            "observed": {"height": i.height, "hash": short(&i.block_hash), "time": i.timestamp, "difficulty": i.difficulty.to_string()},
                        }),
                    );
                }
            }
        }

        // unfiltered get_utxos names the same tip
        for a in [A, B] {
            let text = w.book.text(a).to_string();
            match w.utxos_req(&text, None, None) {
                Err(p) => out.violation("utxos-trap", None, json!({"panic": p})),
                Ok(Err(e)) => out.violation("utxos-error", None, json!({"error": format!("{:?}", e)})),
                Ok(Ok(r)) => {
                    if r.tip_block_hash != tip.to_vec() || r.tip_height != rt.height {
                        // signature of finding F1
                        let stop = f1_stop_block(&w.refm, &anchor, &best);
                        let is_f1 = stop != tip
                            && r.tip_block_hash == stop.to_vec()
                            && r.tip_height == w.refm.get(&stop).height;
                        out.violation(
                            "utxos-tip",
                            if is_f1 { Some("F1") } else { None },
                            json!({
                                "address": text,
                                "expected_tip": short(&tip), "expected_height": rt.height,
                                "observed_tip": short(&r.tip_block_hash), "observed_height": r.tip_height,
                            }),
                        );
                    } else {
                        out.count("utxos_tip_agreements");
                    }
                }
            }
        }

        // get_block_headers(0, none) ends at the tip
        match w.headers(0, None) {
            Err(p) => out.violation("headers-trap", None, json!({"panic": p})),
            Ok(Err(e)) => out.violation("headers-error", None, json!({"error": format!("{:?}", e)})),
            Ok(Ok(r)) => {
                let want_tip = rt.height.min(99);
                let last_ok = if rt.height <= 99 {
                    r.block_headers.last() == Some(&rt.header)
                } else {
                    true
                };
                if r.tip_height != want_tip || !last_ok {
                    out.violation(
                        "headers-tip",
                        None,
                        json!({"expected_tip_height": want_tip, "observed_tip_height": r.tip_height,
                               "last_header_is_tip": last_ok}),
                    );
                }
            }
        }

        // get_balance is the balance on that chain
        match w.refm.ledger_at(&tip) {
            Err(e) => out.violation("machinery:ledger", None, json!({"error": e})),
            Ok(ledger) => {
                for a in [A, B] {
                    let script = w.book.script(a);
                    let want: u64 = RefModel::utxos_of(&ledger, script.as_bytes())
                        .iter()
                        .map(|u| u.1)
                        .sum();
                    let text = w.book.text(a).to_string();
                    match w.balance(&text, None) {
                        Err(p) => out.violation("balance-trap", None, json!({"panic": p})),
                        Ok(Err(e)) => out.violation("balance-error", None, json!({"error": format!("{:?}", e)})),
                        Ok(Ok(b)) => {
                            if b != want {
                                out.violation(
                                    "balance-chain",
                                    None,
                                    json!({"address": text, "expected": want, "observed": b}),
                                );
                            } else if want > 0 {
                                out.count("balance_agreements_nonzero");
                            }
                        }
                    }
                }
            }
        }
    }
}

pub fn run(tier: &str) -> i32 {
    let mut rep = Report::new("C02", tier, "model_checking");
    let quick = tier == "quick";
    let parts: Vec<(Network, u32, usize, Vec<u8>, bool)> = if quick {
        vec![
            (Network::Regtest, 1, 5, vec![1, 2, 3], false),
            (Network::Regtest, 2, 5, vec![1, 2, 3], false),
            // unevenly spaced difficulties: more distinct partial sums, so that
            // mis-weighted branches fall between competitors
            (Network::Regtest, 3, 5, vec![1, 2, 5], false),
            (Network::Regtest, 2, 6, vec![1, 4], false),
            // timestamps that are not monotone along the chain: the tip's time is not the
            // largest time of the chain
            (Network::Regtest, 2, 5, vec![1, 2], true),
        ]
    } else {
        vec![
            (Network::Regtest, 1, 6, vec![1, 2, 3], false),
            (Network::Regtest, 2, 6, vec![1, 2, 3], false),
            (Network::Regtest, 3, 6, vec![1, 2, 3], false),
            (Network::Regtest, 2, 7, vec![1, 2], false),
            (Network::Regtest, 3, 7, vec![1, 2], false),
            (Network::Mainnet, 2, 5, vec![1, 2, 3], false),
            (Network::Testnet, 2, 5, vec![1, 2, 3], false),
            (Network::Regtest, 2, 6, vec![1, 2, 3], true),
            (Network::Mainnet, 2, 5, vec![1, 2], true),
        ]
    };
    for (net, theta, n, diffs, dips) in parts {
        let m = ChainModel {
            cfg: WorldCfg { time_dips: dips, ..WorldCfg::on(net, theta) },
            alpha: Alphabet::tree(n, &diffs),
            oracle: C02,
        };
        let e = explore(&m, &Limits::new(3, if quick { 300 } else { 3000 }));
        rep.absorb(
            &format!("TREE net={} theta={} n={} D={:?}{}", net, theta, n, diffs, if dips { " non-monotone-times" } else { "" }),
            e,
            json!({"network": net.to_string(), "threshold": theta, "max_blocks": n, "difficulties": diffs, "non_monotone_timestamps": dips}),
        );
    }
    // the fee percentiles are answered with respect to the same tip: fee-carrying
    // histories through the heartbeat, with a query after every step (C15's model)
    for (theta, lazy, n) in if quick { vec![(3u32, true, 4usize), (3, false, 4)] } else { vec![(3, true, 5), (3, false, 5), (6, true, 5)] } {
        let m = crate::props::c15::C15Model {
            theta,
            lazy,
            max_blocks: n,
            bodies: vec![BODY_CB, BODY_FEE_SEGWIT, BODY_FEE_PAIR],
            max_upgrades: 0,
            max_queries: if lazy { n + 1 } else { 0 },
        };
        let e = explore(&m, &Limits::new(2, if quick { 300 } else { 3000 }));
        rep.absorb(
            &format!("FEES-follow-tip theta={} lazy={} n={}", theta, lazy, n),
            e,
            json!({"threshold": theta, "lazy": lazy, "max_blocks": n, "oracle": "fee percentiles = reference percentiles of the best chain at the last observation point"}),
        );
    }
    // "answered with respect to that same tip" also means the *content* of the unfiltered
    // get_utxos answer is the tip's: a transaction sitting at different heights on two forks,
    // spent further up the heaviest one (the ledger oracle of C01 on a small LEDGER part)
    {
        let n = if quick { 4 } else { 5 };
        let alpha = crate::props::c01::ledger_alphabet(n, &[1], 2);
        let m = ChainModel {
            cfg: WorldCfg::regtest(2),
            alpha,
            oracle: crate::props::c01::C01 { limits: vec![None] },
        };
        let e = explore(&m, &Limits::new(2, if quick { 300 } else { 3000 }));
        rep.absorb(
            &format!("LEDGER theta=2 n={} all ledger bodies, <= 2 non-default per history", n),
            e,
            json!({"threshold": 2, "max_blocks": n, "oracle": "unfiltered get_utxos of every address = ledger at the named tip"}),
        );
    }
    // a tall tree: a short heavy branch is the heaviest chain while a light branch next to it
    // grows by hundreds of blocks (a testnet minimum-difficulty storm); after every arrival
    // and ingestion opportunity the served tip must still be the heavy branch's (the family
    // of C03, which also judges the depth rule)
    let storms: Vec<(Network, u32, usize, u128, usize)> = if quick {
        vec![(Network::Regtest, 2, 2, 290, 520)]
    } else {
        vec![(Network::Regtest, 2, 2, 290, 520), (Network::Testnet, 144, 3, 1000, 620), (Network::Regtest, 600, 2, 290, 520)]
    };
    for (net, theta, f, fd, max_len) in &storms {
        crate::props::c03::escape_family_weighted(&mut rep, *net, *theta, *f, *fd, *max_len, None);
    }
    rep.parts.push(json!({"part": "heavy short branch against a long light branch (served tip judged after every arrival)", "runs": storms.iter().map(|s| json!([s.0.to_string(), s.1, s.2, s.3.to_string(), s.4])).collect::<Vec<_>>()}));
    rep.floor("escape_judgements_with_the_heaviest_branch_shorter_than_the_longest", 300);
    rep.floor("nonempty_answers_checked", 500);
    rep.floor("states_where_forks_carry_different_fees", 50);
    rep.rule = "all histories of <= n block deliveries (any live block as parent, difficulty from D, coinbase-only bodies paying 2^k satoshi so that a balance identifies the chain) interleaved with unsliced ingestion opportunities; a state is distinct by the fingerprint of the serialised canister state (statistics masked); outcome = best tip".into();
    rep.bounds = json!({"tier": tier, "profile": "TREE"});
    rep.assume("mainnet/testnet blocks enter through unstable_blocks::push (no proof of work natively)");
    rep.assume("utxos_length is not part of this statement; the values of the fee percentiles are C15's subject, here they serve to tell which chain is served");
    rep.floor("states_best_shorter_than_longest", 10);
    rep.floor("states_exact_tie_decided_by_arrival", 10);
    rep.floor("reorg_transitions", 10);
    rep.floor("balance_agreements_nonzero", 100);
    rep.finish()
}

pub mod c01;
pub mod c02;
pub mod c03;
pub mod c04;
pub mod c05;
pub mod c06;
pub mod c07;
pub mod c08;
pub mod c09;
pub mod c10;
pub mod c11;
pub mod c12;
pub mod c13;
pub mod c14;
pub mod c15;
pub mod c16;
pub mod c17;
pub mod c18;
pub mod c19;
pub mod c20;

pub fn run(prop: &str, tier: &str) -> i32 {
    match prop {
        "C01" => c01::run(tier),
        "C02" => c02::run(tier),
        "C03" => c03::run(tier),
        "C04" => c04::run(tier),
        "C05" => c05::run(tier),
        "C06" => c06::run(tier),
        "C07" => c07::run(tier),
        "C08" => c08::run(tier),
        "C09" => c09::run(tier),
        "C10" => c10::run(tier),
        "C11" => c11::run(tier),
        "C12" => c12::run(tier),
        "C13" => c13::run(tier),
        "C14" => c14::run(tier),
        "C15" => c15::run(tier),
        "C16" => c16::run(tier),
        "C17" => c17::run(tier),
        "C18" => c18::run(tier),
        "C19" => c19::run(tier),
        "C20" => c20::run(tier),
        _ => {
            eprintln!("unknown property {}", prop);
            3
        }
    }
}

/// Replays one recorded violation. Chain-model histories are replayed directly on the
/// model (no exploration); everything else re-runs the part that produced it and keeps
/// only violations at exactly the recorded history.
pub fn replay(prop: &str, file: &str) -> i32 {
    use crate::chain::{cfg_from_context, Alphabet, ChainModel, Ev};
    use crate::engine::replay_one;
    let text = match std::fs::read_to_string(file) {
        Ok(t) => t,
        Err(e) => {
            eprintln!("cannot read {}: {}", file, e);
            return 3;
        }
    };
    let v: serde_json::Value = match serde_json::from_str(&text) {
        Ok(v) => v,
        Err(e) => {
            eprintln!("cannot parse {}: {}", file, e);
            return 3;
        }
    };
    let ctx = &v["context"];
    let hist_json = v["history"].clone();
    if ctx["model"] == "chain" {
        if let Ok(hist) = serde_json::from_value::<Vec<Ev>>(hist_json.clone()) {
            let cfg = cfg_from_context(ctx);
            let alpha = Alphabet::tree(0, &[1]);
            let o = &ctx["oracle"];
            let out = match prop {
                "C01" => {
                    let limits: Vec<Option<usize>> = serde_json::from_value(o["limits"].clone()).unwrap_or(vec![None]);
                    Some(replay_one(&ChainModel { cfg, alpha, oracle: c01::C01 { limits } }, &hist))
                }
                "C02" => Some(replay_one(&ChainModel { cfg, alpha, oracle: c02::C02 }, &hist)),
                "C03" => Some(replay_one(&ChainModel { cfg, alpha, oracle: c03::C03 }, &hist)),
                "C04" => {
                    let limit: Option<usize> = serde_json::from_value(o["limit"].clone()).unwrap_or(None);
                    Some(replay_one(&ChainModel { cfg, alpha, oracle: c04::C04 { limit } }, &hist))
                }
                "C05" => {
                    let m = c05::malformed_set(cfg.net);
                    Some(replay_one(&ChainModel { cfg, alpha, oracle: c05::C05 { malformed: m } }, &hist))
                }
                "C07" => Some(replay_one(&ChainModel { cfg, alpha, oracle: c07::C07 }, &hist)),
                "C09" => {
                    let continuation = o["continuation"].as_u64().unwrap_or(2) as usize;
                    Some(replay_one(&ChainModel { cfg, alpha, oracle: c09::C09 { continuation } }, &hist))
                }
                "C14" => Some(replay_one(&ChainModel { cfg, alpha, oracle: c14::C14 }, &hist)),
                "C20" => Some(replay_one(&ChainModel { cfg, alpha, oracle: c20::C20 }, &hist)),
                _ => None,
            };
            if let Some(out) = out {
                let kind = v["kind"].as_str().unwrap_or("");
                let same: Vec<_> = out.violations.iter().filter(|x| x.kind == kind).collect();
                for x in &out.violations {
                    crate::util::say(&format!(
                        "REPLAY property={} kind={} finding_signature={:?} after={} events detail={}",
                        prop,
                        x.kind,
                        x.finding,
                        x.history.as_array().map(|a| a.len()).unwrap_or(0),
                        x.detail
                    ));
                }
                crate::util::say(&format!(
                    "REPLAY property={} reproduced={} (history of {} events replayed on the real code without the explorer)",
                    prop,
                    !same.is_empty(),
                    hist.len()
                ));
                return if same.is_empty() { 0 } else { 1 };
            }
        }
    }
    // generic path: re-run the tier that produced it, keeping only this history
    let _ = crate::engine::REPLAY_TARGET.set(hist_json.clone());
    // families of C06 are replayed on their own (the recorded instance only)
    if prop == "C06" {
        if let Some(code) = c06::replay_family(&hist_json, v["tier"].as_str().unwrap_or("quick")) {
            return code;
        }
    }
    let tier = v["tier"].as_str().unwrap_or("quick").to_string();
    run(prop, &tier)
}

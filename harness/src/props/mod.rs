pub mod c01;
pub mod c02;
pub mod c03;
pub mod c04;
pub mod c05;
pub mod c06;
pub mod c07;
pub mod c08;
pub mod c09;
pub mod c10;
pub mod c11;
pub mod c12;
pub mod c13;
pub mod c14;
pub mod c15;
pub mod c16;
pub mod c17;
pub mod c18;
pub mod c19;
pub mod c20;

pub fn run(prop: &str, tier: &str) -> i32 {
    match prop {
        "C01" => c01::run(tier),
        "C02" => c02::run(tier),
        "C03" => c03::run(tier),
        "C04" => c04::run(tier),
        "C05" => c05::run(tier),
        "C06" => c06::run(tier),
        "C07" => c07::run(tier),
        "C08" => c08::run(tier),
        "C09" => c09::run(tier),
        "C10" => c10::run(tier),
        "C11" => c11::run(tier),
        "C12" => c12::run(tier),
        "C13" => c13::run(tier),
        "C14" => c14::run(tier),
        "C15" => c15::run(tier),
        "C16" => c16::run(tier),
        "C17" => c17::run(tier),
        "C18" => c18::run(tier),
        "C19" => c19::run(tier),
        "C20" => c20::run(tier),
        _ => {
            eprintln!("unknown property {}", prop);
            3
        }
    }
}

pub fn replay(prop: &str, _file: &str) -> i32 {
    eprintln!("replay not implemented for {}", prop);
    3
}

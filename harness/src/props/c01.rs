//! C01 — UTXO answers are exactly the ledger state at the tip they name.
use crate::chain::*;
use crate::engine::{explore, Limits, Out};
use crate::factory;
use crate::ledgercheck::*;
use crate::report::Report;
use crate::util::{fp64, short};
use crate::world::{World, WorldCfg};
use ic_btc_interface::Network;
use serde_json::json;

pub struct C01 {
    pub limits: Vec<Option<usize>>,
}

#[derive(Default)]
pub struct Mon;

pub fn check_address(w: &World, a: usize, limit: Option<usize>, out: &mut Out, prop_kind_prefix: &str) {
    let text = w.book.text(a).to_string();
    match w.utxos_all(&text, None, limit) {
        Err(p) => out.violation(&format!("{}trap", prop_kind_prefix), None, json!({"address": text, "panic": p})),
        Ok(Err(e)) => out.violation(
            &format!("{}unexpected-error", prop_kind_prefix),
            None,
            json!({"address": text, "error": format!("{:?}", e)}),
        ),
        Ok(Ok(paged)) => {
            if let Some(e) = &paged.follow_up_error {
                out.violation(
                    &format!("{}follow-up-error", prop_kind_prefix),
                    None,
                    json!({"address": text, "error": format!("{:?}", e), "limit": limit}),
                );
                return;
            }
            let (tip, height) = paged.tip();
            if !w.refm.has(&tip) || w.refm.get(&tip).height != height {
                out.violation(
                    &format!("{}named-tip-unknown-or-wrong-height", prop_kind_prefix),
                    None,
                    json!({"address": text, "tip": short(&tip), "height": height}),
                );
                return;
            }
            let (exp, ledger) = match expected_at(w, &tip, a) {
                Ok(x) => x,
                Err(e) => {
                    out.violation("machinery:ledger", None, json!({"error": e}));
                    return;
                }
            };
            let obs = paged.all();
            let d = diff_utxos(&exp, &obs);
            if !d.is_clean() {
                let f = classify(w, a, &tip, &ledger, &d);
                out.violation(
                    &format!("{}utxo-set", prop_kind_prefix),
                    f,
                    json!({"address": text, "address_name": w.book.addrs[a].name, "tip": short(&tip), "tip_height": height,
                           "limit": limit, "diff": d.to_json()}),
                );
            } else {
                out.count("answers_checked");
                if !obs.is_empty() {
                    out.count("nonempty_answers_checked");
                }
                if paged.pages.len() > 1 {
                    out.count("multi_page_answers_checked");
                }
            }
            let lim = limit.unwrap_or(1000);
            if paged.pages.iter().any(|p| p.utxos.len() > lim) {
                out.violation(
                    &format!("{}page-too-large", prop_kind_prefix),
                    None,
                    json!({"address": text, "limit": lim}),
                );
            }
        }
    }
}

fn count_shapes(w: &World, hist: &[Ev], out: &mut Out) {
    let anchor = w.anchor();
    if !w.refm.has(&anchor) {
        return;
    }
    let paths = w.refm.leaf_paths(&anchor);
    if paths.len() >= 2 {
        out.count("states_with_two_leaves");
    }
    // shared transaction on two forks at different heights
    let shared: Vec<usize> = hist
        .iter()
        .filter_map(|e| match e {
            Ev::Block { body, .. } if *body == BODY_SHARED => Some(1),
            _ => None,
        })
        .collect();
    if shared.len() >= 2 {
        out.count("states_shared_tx_on_two_blocks");
    }
    if hist.iter().any(|e| matches!(e, Ev::Block { body, .. } if *body == BODY_CHAIN)) {
        out.count("states_with_same_block_spend");
    }
    if hist.iter().any(|e| matches!(e, Ev::Block { body, .. } if *body == BODY_ODD)) {
        out.count("states_with_odd_outputs");
    }
    if hist.iter().any(|e| matches!(e, Ev::Block { body, .. } if *body == BODY_COLLIDE)) {
        if w.stable_height() > 0 {
            out.count("states_collision_pair_funded_after_stabilisation");
        } else {
            out.count("states_collision_pair_funded_unstable");
        }
    }
    if hist.iter().any(|e| matches!(e, Ev::Block { body, .. } if *body == BODY_SPEND_OLD)) && w.stable_height() > 0 {
        out.count("states_spend_of_old_output_with_stable_part");
    }
}

impl Oracle for C01 {
    type Mon = Mon;
    fn prop(&self) -> &'static str {
        "C01"
    }
    fn params(&self) -> serde_json::Value {
        json!({"limits": self.limits})
    }
    fn on_state(&self, w: &mut World, _mon: &mut Mon, hist: &[Ev], out: &mut Out) {
        out.distinct.insert(fp64(&crate::world::state_bytes(true)));
        count_shapes(w, hist, out);
        if w.is_ingesting() {
            out.count("states_checked_during_a_paused_ingestion");
            if matches!(hist.last(), Some(Ev::Upgrade { .. })) {
                out.count("states_checked_after_an_upgrade_during_a_paused_ingestion");
            }
        }
        for a in 0..w.book.addrs.len() {
            for l in &self.limits {
                check_address(w, a, *l, out, "");
            }
        }
        // bech32 addresses may be written in upper case (BIP-173): the same address, the
        // same answer
        for a in 0..w.book.addrs.len() {
            let text = w.book.text(a).to_string();
            let lower = text.to_lowercase();
            if !(lower.starts_with("bc1") || lower.starts_with("tb1") || lower.starts_with("bcrt1")) {
                continue;
            }
            let upper = text.to_uppercase();
            let r1 = w.utxos_all(&text, None, None);
            let r2 = w.utxos_all(&upper, None, None);
            let render = |r: &Result<Result<crate::world::Paged, ic_btc_interface::GetUtxosError>, String>| match r {
                Ok(Ok(p)) => format!("{:?} {:?}", p.pages.iter().map(|x| (x.tip_height, x.tip_block_hash.clone())).collect::<Vec<_>>(), p.all()),
                Ok(Err(e)) => format!("ERR {:?}", e),
                Err(p) => format!("TRAP {}", p),
            };
            if render(&r1) != render(&r2) {
                out.violation(
                    "upper-case-spelling-answered-differently",
                    None,
                    json!({"address": text, "upper_case": upper, "lower_case_answer": render(&r1).chars().take(200).collect::<String>(),
                           "upper_case_answer": render(&r2).chars().take(200).collect::<String>()}),
                );
            } else {
                out.count("upper_case_spellings_compared");
            }
        }
        if let Ok(i) = w.info() {
            out.outcomes.insert(fp64(&i.block_hash));
        }
    }
}

pub fn ledger_alphabet(n: usize, diffs: &[u8], max_special: usize) -> Alphabet {
    let mut a = Alphabet::tree(n, diffs);
    a.bodies = vec![
        BODY_CB,
        BODY_SPEND_PARENT,
        BODY_CHAIN,
        BODY_ODD,
        BODY_SHARED,
        BODY_COLLIDE,
        BODY_SPEND_OLD,
        BODY_MULTI,
        BODY_ZEROS,
    ];
    a.max_special = max_special;
    a
}

/// Page-size family with the real limit of 1000: one address with N outputs.
fn big_address_family(rep: &mut Report, sizes: &[usize]) {
    let mut out = Out::default();
    for n in sizes {
        let mut w = World::new(WorldCfg::regtest(2));
        let g = w.refm.genesis;
        let ph = w.blocks.get(&g).unwrap().header;
        let outs: Vec<(u64, bitcoin::ScriptBuf)> = (0..*n).map(|i| (1000 + i as u64, w.book.script(factory::A))).collect();
        let b = factory::regtest_block(&ph, ph.time + 600, vec![factory::coinbase_tx(1, outs)]);
        assert!(w.deliver_direct(&b, Some(1)).unwrap());
        out.set_history(json!({"family": "big-address", "outputs": n, "stage": "unstable"}));
        check_address(&w, factory::A, None, &mut out, "big:");
        out.states += 1;
        // bury it so that it becomes stable, and ask again
        let mut tip = *w.ids.last().unwrap();
        for k in 0..3 {
            let ph = w.blocks.get(&tip).unwrap().header;
            let b = factory::regtest_block(&ph, ph.time + 600, vec![factory::coinbase_tx(10 + k, vec![(5, w.book.script(factory::B))])]);
            assert!(w.deliver_direct(&b, Some(1)).unwrap());
            tip = *w.ids.last().unwrap();
            let _ = w.ingest(None);
            out.set_history(json!({"family": "big-address", "outputs": n, "stage": format!("buried {}", k + 1)}));
            check_address(&w, factory::A, None, &mut out, "big:");
            out.states += 1;
            out.transitions += 1;
        }
        out.leaves += 1;
    }
    rep.out.merge(out);
}

/// Tall-chain family: heights beyond one byte (and two fork blocks at the top), outputs to A
/// at heights around 255/256, a spend of an old stable output near the tip; all pages followed
/// with page sizes 1000 and 2.
fn tall_chain_family(rep: &mut Report, len: usize, theta: u32) {
    let mut out = Out::default();
    let mut w = World::new(WorldCfg::regtest(theta));
    let mut tip = w.refm.genesis;
    let mut first_a: Option<([u8; 32], u32)> = None;
    for i in 1..=len {
        let pays_a = i == 1 || (i >= 254 && i <= 258) || i + 3 >= len;
        let mut txs = vec![factory::coinbase_tx(i as u64, vec![(1000 + i as u64, w.book.script(if pays_a { factory::A } else { factory::B }))])];
        if i == 1 {
            first_a = Some((factory::txid_of(&txs[0]), 0));
        }
        if i + 1 == len {
            // spend the very first output of A (stable for a long time by now)
            let k = first_a.unwrap();
            txs.push(factory::spend_tx(&[k], vec![(1001, w.book.script(factory::C))], 1, 0x7a));
        }
        tip = w.extend(&tip, txs, 1);
        let _ = w.ingest(None);
        out.transitions += 1;
    }
    // a competing block at the top
    let parent = w.refm.get(&tip).parent;
    let _ = w.extend(&parent, vec![factory::coinbase_tx(9_999, vec![(7, w.book.script(factory::A))])], 1);
    out.set_history(json!({"family": "tall chain", "blocks": len, "theta": theta, "stable_height": w.stable_height()}));
    for a in [factory::A, factory::B, factory::C] {
        for l in [None, Some(2usize)] {
            check_address(&w, a, l, &mut out, "tall:");
            out.states += 1;
        }
    }
    out.leaves += 1;
    rep.out.merge(out);
}

pub fn run(tier: &str) -> i32 {
    let mut rep = Report::new("C01", tier, "model_checking");
    let quick = tier == "quick";
    // (net, theta, n, diffs, max_special, limits)
    let parts: Vec<(Network, u32, usize, Vec<u8>, usize, Vec<Option<usize>>)> = if quick {
        vec![
            (Network::Regtest, 1, 4, vec![1], 2, vec![None, Some(2)]),
            (Network::Regtest, 2, 4, vec![1], 2, vec![None, Some(1)]),
            (Network::Regtest, 2, 3, vec![1, 3], 3, vec![None]),
            (Network::Mainnet, 2, 3, vec![1], 2, vec![None, Some(1)]),
            (Network::Testnet, 1, 3, vec![1], 2, vec![None, Some(2)]),
        ]
    } else {
        vec![
            (Network::Regtest, 1, 5, vec![1], 3, vec![None, Some(1), Some(2)]),
            (Network::Regtest, 2, 5, vec![1], 3, vec![None, Some(1), Some(2)]),
            (Network::Regtest, 3, 5, vec![1], 2, vec![None, Some(2)]),
            (Network::Regtest, 2, 4, vec![1, 3], 3, vec![None, Some(1)]),
            (Network::Mainnet, 2, 4, vec![1], 3, vec![None, Some(1)]),
            (Network::Testnet, 2, 4, vec![1], 3, vec![None, Some(1)]),
            (Network::Mainnet, 1, 4, vec![1, 3], 2, vec![None]),
            (Network::Testnet, 1, 4, vec![1, 3], 2, vec![None]),
        ]
    };
    for (net, theta, n, diffs, sp, limits) in parts {
        let m = ChainModel {
            cfg: WorldCfg::on(net, theta),
            alpha: ledger_alphabet(n, &diffs, sp),
            oracle: C01 { limits: limits.clone() },
        };
        let e = explore(&m, &Limits::new(2, if quick { 300 } else { 6000 }));
        rep.absorb(
            &format!("LEDGER net={} theta={} n={} D={:?} special<={} limits={:?}", net, theta, n, diffs, sp, limits),
            e,
            json!({"network": net.to_string(), "threshold": theta, "max_blocks": n, "difficulties": diffs,
                   "max_non_default_bodies": sp, "page_limits": limits.iter().map(|l| l.unwrap_or(1000)).collect::<Vec<_>>()}),
        );
    }
    // the same statement on the states in the middle of a sliced ingestion and after an
    // upgrade at any message boundary (including between two slices of a block)
    for (theta, n) in if quick { vec![(1u32, 3usize)] } else { vec![(1, 4), (2, 4)] } {
        let mut alpha = ledger_alphabet(n, &[1], 2);
        alpha.bodies = vec![BODY_CB, BODY_MULTI, BODY_SPEND_PARENT, BODY_CHAIN];
        alpha.budgets = vec![0, 1, 2];
        alpha.upgrades = vec![0];
        alpha.max_upgrades = 1;
        let m = ChainModel {
            cfg: WorldCfg::regtest(theta),
            alpha,
            oracle: C01 { limits: vec![None, Some(2)] },
        };
        let e = explore(&m, &Limits::new(2, if quick { 300 } else { 6000 }));
        rep.absorb(
            &format!("LEDGER sliced+upgrade theta={} n={} budgets=[unlimited,1,2] upgrades<=1", theta, n),
            e,
            json!({"network": "regtest", "threshold": theta, "max_blocks": n, "ingestion_budgets": [0, 1, 2], "max_upgrades": 1}),
        );
    }
    rep.floor("states_checked_during_a_paused_ingestion", 50);
    rep.floor("states_checked_after_an_upgrade_during_a_paused_ingestion", 10);
    let sizes: Vec<usize> = if quick { vec![999, 1001] } else { vec![999, 1000, 1001, 2001] };
    big_address_family(&mut rep, &sizes);
    rep.parts.push(json!({"part": "page-size family (real limit 1000)", "outputs": sizes}));
    let tall: Vec<(usize, u32)> = if quick { vec![(300, 2)] } else { vec![(300, 2), (600, 144), (70_000 / 100, 6)] };
    for (l, t) in &tall {
        tall_chain_family(&mut rep, *l, *t);
    }
    rep.parts.push(json!({"part": "tall-chain family (heights beyond one byte, old stable output spent near the tip)", "runs": tall}));
    rep.rule = "LEDGER histories: every tree of <= n blocks in every arrival order, each block carrying a body from the menu (coinbase, spend of parent coinbase, same-block create-and-spend, op_return/zero-value/bare/oversized outputs, the shared transaction T, outputs to a pair of addresses where one text is a prefix of the other, spend of the oldest output, multi-output/multi-input), at most k non-default bodies per history, unsliced ingestion opportunities; in every state every book address is queried with all pages followed (page sizes 1000, and 1/2 through the hook) and compared with the ledger replayed from genesis to the named tip; bech32 addresses are also queried in their upper-case spelling".into();
    rep.bounds = json!({"tier": tier, "profile": "LEDGER"});
    rep.assume("domain: transaction-valid blocks (the menu only offers bodies whose inputs are unspent on the block's own chain)");
    rep.assume("order within one height is not part of the statement and is not compared");
    rep.assume("address text <-> script mapping shared with rust-bitcoin");
    rep.floor("upper_case_spellings_compared", 1000);
    rep.floor("states_with_two_leaves", 100);
    rep.floor("states_shared_tx_on_two_blocks", 10);
    rep.floor("states_with_same_block_spend", 100);
    rep.floor("states_with_odd_outputs", 100);
    rep.floor("states_collision_pair_funded_after_stabilisation", 10);
    rep.floor("nonempty_answers_checked", 1000);
    rep.floor("multi_page_answers_checked", 100);
    rep.finish()
}

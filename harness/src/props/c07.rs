//! C07 — header ranges are exact, ordered and linked across the stable boundary.
use crate::chain::*;
use crate::engine::{explore, Limits, Out};
use crate::factory;
use crate::refmodel::H32;
use crate::report::Report;
use crate::util::fp64;
use crate::world::{World, WorldCfg};
use ic_btc_interface::{GetBlockHeadersError, Network};
use serde_json::json;

pub struct C07;

#[derive(Default)]
pub struct Mon {
    upgraded: bool,
}

/// Checks one (start, end) request against the reference chain `chain` (genesis..=tip).
pub fn check_range(w: &World, chain: &[H32], start: u32, end: Option<u32>, out: &mut Out, ctx: &str) {
    let h = chain.len() as u32 - 1;
    let r = w.headers(start, end);
    let r = match r {
        Err(p) => {
            out.violation("trap", None, json!({"start": start, "end": end, "panic": p, "ctx": ctx}));
            return;
        }
        Ok(r) => r,
    };
    // applicable documented errors
    let mut errs: Vec<GetBlockHeadersError> = vec![];
    if start > h {
        errs.push(GetBlockHeadersError::StartHeightDoesNotExist {
            requested: start,
            chain_height: h,
        });
    }
    if let Some(e) = end {
        if e < start {
            errs.push(GetBlockHeadersError::StartHeightLargerThanEndHeight {
                start_height: start,
                end_height: e,
            });
        }
        if e > h {
            errs.push(GetBlockHeadersError::EndHeightDoesNotExist {
                requested: e,
                chain_height: h,
            });
        }
    }
    match r {
        Err(e) => {
            if errs.contains(&e) {
                out.count("documented_errors");
            } else {
                out.violation(
                    "wrong-error",
                    None,
                    json!({"start": start, "end": end, "chain_height": h, "observed": format!("{:?}", e),
                           "applicable": errs.iter().map(|x| format!("{:?}", x)).collect::<Vec<_>>(), "ctx": ctx}),
                );
            }
        }
        Ok(resp) => {
            if !errs.is_empty() {
                out.violation(
                    "answered-out-of-range",
                    None,
                    json!({"start": start, "end": end, "chain_height": h, "ctx": ctx}),
                );
                return;
            }
            let eff_end = end.unwrap_or(h).min(start + 99);
            let want: Vec<&Vec<u8>> = (start..=eff_end)
                .map(|x| &w.refm.get(&chain[x as usize]).header)
                .collect();
            let got: Vec<&Vec<u8>> = resp.block_headers.iter().collect();
            if got != want || resp.tip_height != eff_end {
                // signature of finding F4: expected answer with the header at the stable
                // height twice in a row, while a block is partially ingested
                let sh = w.stable_height();
                let mut f4 = false;
                if w.is_ingesting() && start <= sh && sh <= eff_end && resp.tip_height == eff_end {
                    let mut dup: Vec<&Vec<u8>> = vec![];
                    for x in start..=eff_end {
                        dup.push(&w.refm.get(&chain[x as usize]).header);
                        if x == sh {
                            dup.push(&w.refm.get(&chain[x as usize]).header);
                        }
                    }
                    // the stable part lists the header first, then the unstable part again
                    let mut alt: Vec<&Vec<u8>> = vec![];
                    for x in start..=sh {
                        alt.push(&w.refm.get(&chain[x as usize]).header);
                    }
                    for x in sh.max(start)..=eff_end {
                        alt.push(&w.refm.get(&chain[x as usize]).header);
                    }
                    f4 = got == dup || got == alt;
                }
                out.violation(
                    "range-content",
                    if f4 { Some("F4") } else { None },
                    json!({"start": start, "end": end, "chain_height": h, "stable_height": sh,
                           "ingesting": w.is_ingesting(),
                           "expected_count": want.len(), "observed_count": got.len(),
                           "expected_tip_height": eff_end, "observed_tip_height": resp.tip_height, "ctx": ctx}),
                );
            } else {
                out.count("ranges_checked");
                // linkage (implied by equality, asserted independently on the bytes)
                for i in 1..resp.block_headers.len() {
                    let prev_hash = crate::util::sha256d(&resp.block_headers[i - 1]);
                    if resp.block_headers[i][4..36] != prev_hash {
                        out.violation("machinery:linkage", None, json!({"i": i}));
                    }
                    if resp.block_headers[i].len() != 80 {
                        out.violation("header-length", None, json!({"i": i}));
                    }
                }
                let sh = w.stable_height();
                if start < sh && eff_end >= sh {
                    out.count("ranges_straddling_stable_boundary");
                    if w.is_ingesting() {
                        out.count("straddling_ranges_at_a_pause");
                    }
                }
            }
        }
    }
}

impl Oracle for C07 {
    type Mon = Mon;
    fn prop(&self) -> &'static str {
        "C07"
    }
    fn on_transition(&self, _w: &mut World, mon: &mut Mon, ev: &Ev, _pre: &Snap, _a: &Applied, _c: bool, _o: &mut Out) {
        mon.upgraded = matches!(ev, Ev::Upgrade { .. });
    }
    fn on_state(&self, w: &mut World, mon: &mut Mon, _hist: &[Ev], out: &mut Out) {
        let anchor = w.anchor();
        if !w.refm.has(&anchor) {
            out.violation("anchor-unknown", None, json!({}));
            return;
        }
        out.distinct.insert(fp64(&crate::world::state_bytes(true)));
        let best = w.refm.best_chain(&anchor);
        let chain = w.refm.chain_to(best.last().unwrap());
        let h = chain.len() as u32 - 1;
        out.outcomes.insert(fp64(&[&chain.last().unwrap()[..], &[w.is_ingesting() as u8]].concat()));
        if w.is_ingesting() {
            out.count("states_at_a_pause");
        }
        if mon.upgraded {
            out.count("states_right_after_upgrade");
        }
        for start in 0..=h + 2 {
            check_range(w, &chain, start, None, out, "tree");
            for end in 0..=h + 2 {
                check_range(w, &chain, start, Some(end), out, "tree");
            }
        }
    }
}

/// Long-chain family: ranges around the 100-header cap and around the stable boundary.
fn long_chain_family(rep: &mut Report, n: usize, theta: u32, pause: bool) {
    let mut out = Out::default();
    let mut w = World::new(WorldCfg::regtest(theta));
    let mut tip = w.refm.genesis;
    for i in 0..n {
        let ph = w.blocks.get(&tip).unwrap().header;
        let outs = vec![
            (50u64, w.book.script(factory::A)),
            (51u64, w.book.script(factory::B)),
            (52u64, w.book.script(factory::C)),
        ];
        let b = factory::regtest_block(&ph, ph.time + 600, vec![factory::coinbase_tx(i as u64 + 1, outs)]);
        assert!(w.deliver_direct(&b, Some(1)).unwrap());
        tip = *w.ids.last().unwrap();
        // ingest as the heartbeat would; optionally leave the last stabilising block paused
        let last = i + 1 == n;
        if pause && last {
            let r = w.ingest(Some(2));
            if r != Ok(crate::world::Ingested::Paused) {
                out.violation("machinery:family-pause", None, json!({"got": format!("{:?}", r)}));
            }
        } else {
            let _ = w.ingest(None);
        }
        out.transitions += 1;
    }
    let chain = w.refm.chain_to(&tip);
    let h = chain.len() as u32 - 1;
    let sh = w.stable_height();
    out.set_history(json!({"family": "long-chain", "blocks": n, "theta": theta, "paused": pause, "stable_height": sh}));
    let mut starts: Vec<u32> = vec![0, 1, h.saturating_sub(100), h.saturating_sub(99), h.saturating_sub(98), h - 1, h, h + 1];
    for d in 0..=102u32 {
        starts.push(sh.saturating_sub(d));
    }
    starts.push(sh + 1);
    starts.push(sh + 2);
    starts.sort();
    starts.dedup();
    for s in &starts {
        let mut ends: Vec<Option<u32>> = vec![None, Some(*s), Some(s + 98), Some(s + 99), Some(s + 100), Some(h - 1), Some(h), Some(h + 1)];
        for e in [sh.saturating_sub(1), sh, sh + 1] {
            ends.push(Some(e));
        }
        ends.dedup();
        for e in ends {
            check_range(&w, &chain, *s, e, &mut out, "long-chain");
            out.states += 1;
        }
    }
    out.leaves += 1;
    out.samples.push(json!({"family": "long-chain", "blocks": n, "theta": theta, "paused": pause,
        "stable_height": sh, "tip_height": h, "starts": starts.len()}));
    rep.out.merge(out);
}

pub fn run(tier: &str) -> i32 {
    let mut rep = Report::new("C07", tier, "model_checking");
    let quick = tier == "quick";
    // (net, theta, n, diffs, bodies, budgets, upgrades)
    let parts: Vec<(Network, u32, usize, Vec<u8>, Vec<u8>, Vec<u32>, usize)> = if quick {
        vec![
            (Network::Regtest, 1, 4, vec![1], vec![BODY_CB, BODY_MULTI], vec![0, 1, 2], 1),
            (Network::Regtest, 2, 5, vec![1, 2], vec![BODY_CB], vec![0, 1], 0),
        ]
    } else {
        vec![
            (Network::Regtest, 1, 5, vec![1, 2], vec![BODY_CB, BODY_MULTI], vec![0, 1, 2], 1),
            (Network::Regtest, 2, 5, vec![1, 2], vec![BODY_CB, BODY_MULTI], vec![0, 1, 2], 1),
            (Network::Regtest, 2, 6, vec![1, 2], vec![BODY_CB], vec![0, 1], 1),
            (Network::Regtest, 3, 6, vec![1, 2, 3], vec![BODY_CB], vec![0, 1], 1),
            (Network::Mainnet, 2, 5, vec![1, 2], vec![BODY_CB, BODY_MULTI], vec![0, 1, 2], 1),
            (Network::Testnet, 1, 5, vec![1], vec![BODY_CB, BODY_MULTI], vec![0, 1, 2], 1),
        ]
    };
    for (net, theta, n, diffs, bodies, budgets, ups) in parts {
        let mut alpha = Alphabet::tree(n, &diffs);
        alpha.bodies = bodies.clone();
        alpha.max_special = 2;
        alpha.budgets = budgets.clone();
        alpha.upgrades = vec![0];
        alpha.max_upgrades = ups;
        let m = ChainModel {
            cfg: WorldCfg::on(net, theta),
            alpha,
            oracle: C07,
        };
        let e = explore(&m, &Limits::new(3, if quick { 300 } else { 6000 }));
        rep.absorb(
            &format!("TREE net={} theta={} n={} D={:?} bodies={:?} budgets={:?} upgrades<={}", net, theta, n, diffs, bodies, budgets, ups),
            e,
            json!({"network": net.to_string(), "threshold": theta, "max_blocks": n, "difficulties": diffs,
                   "bodies": bodies, "ingestion_budgets": budgets, "max_upgrades": ups}),
        );
    }
    let fam: Vec<(usize, u32, bool)> = if quick {
        vec![(130, 2, false), (130, 2, true), (130, 144, false)]
    } else {
        vec![(230, 2, false), (230, 2, true), (205, 1, true), (330, 144, false)]
    };
    for (n, theta, pause) in &fam {
        long_chain_family(&mut rep, *n, *theta, *pause);
    }
    rep.parts.push(json!({"part": "long-chain family (100-header cap, stable boundary, paused ingestion)", "runs": fam}));
    rep.rule = "TREE histories with sliced ingestion (budgets 1, 2, unlimited: every pause point of every stabilising block of the explored shapes) and upgrades; in every state all (start, end) with start <= tip+2 and end in {none} U [0, tip+2]; plus a long-chain family probing ranges around the 100-header cap and the stable boundary, with and without a paused ingestion, also with more than 100 unstable blocks (threshold 144)".into();
    rep.bounds = json!({"tier": tier});
    rep.assume("where several documented errors apply to one request (e.g. start > tip and end < start) any of them is accepted");
    rep.floor("ranges_checked", 100_000);
    rep.floor("ranges_straddling_stable_boundary", 1000);
    rep.floor("straddling_ranges_at_a_pause", 100);
    rep.floor("states_at_a_pause", 100);
    rep.floor("states_right_after_upgrade", 100);
    rep.floor("documented_errors", 1000);
    rep.finish()
}

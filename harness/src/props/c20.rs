//! C20 — bookkeeping for unstable blocks is exact: nothing leaks, nothing dangles.
use crate::chain::*;
use crate::engine::{explore, Limits, Out};
use crate::props::c01::ledger_alphabet;
use crate::refmodel::H32;
use crate::report::Report;
use crate::util::{fp64, short};
use crate::world::{World, WorldCfg};
use ciborium::Value as V;
use ic_btc_canister::with_state;
use ic_btc_interface::Network;
use serde_json::json;
use std::collections::{BTreeMap, BTreeSet};

pub struct C20;

#[derive(Default)]
pub struct Mon;

pub type Op = (H32, u32);

#[derive(Default, Debug)]
pub struct UnstableDump {
    pub tree: Vec<(H32, usize)>,
    pub tx_outs: BTreeMap<Op, (u64, Vec<u8>, u32, u32)>, // value, script, height, count
    pub added: BTreeMap<H32, BTreeMap<String, Vec<Op>>>,
    pub removed: BTreeMap<H32, BTreeMap<String, Vec<Op>>>,
    pub hdr_by_hash: BTreeMap<H32, (u32, Vec<u8>)>, // height, prev hash
    pub hdr_by_height: BTreeMap<u32, Vec<H32>>,
    pub tip_depths: Vec<u64>,
}

fn field<'a>(v: &'a V, name: &str) -> Option<&'a V> {
    if let V::Map(m) = v {
        for (k, val) in m {
            if let V::Text(t) = k {
                if t == name {
                    return Some(val);
                }
            }
        }
    }
    None
}
fn as_u64(v: &V) -> Option<u64> {
    if let V::Integer(i) = v {
        u64::try_from(*i).ok()
    } else {
        None
    }
}
fn bytes32(v: &V) -> Option<H32> {
    match v {
        V::Bytes(b) => b.clone().try_into().ok(),
        V::Array(a) => {
            let b: Option<Vec<u8>> = a.iter().map(|x| as_u64(x).map(|n| n as u8)).collect();
            b.and_then(|b| b.try_into().ok())
        }
        _ => None,
    }
}
fn bytes_any(v: &V) -> Option<Vec<u8>> {
    match v {
        V::Bytes(b) => Some(b.clone()),
        V::Array(a) => a.iter().map(|x| as_u64(x).map(|n| n as u8)).collect(),
        _ => None,
    }
}
fn outpoint(v: &V) -> Option<Op> {
    let txid = field(v, "txid")?;
    let b = field(txid, "bytes").and_then(bytes32)?;
    let vout = field(v, "vout").and_then(as_u64)? as u32;
    Some((b, vout))
}
fn addr_map(v: &V) -> Option<BTreeMap<H32, BTreeMap<String, Vec<Op>>>> {
    let mut out = BTreeMap::new();
    if let V::Map(m) = v {
        for (bh, inner) in m {
            let h = bytes32(bh)?;
            let mut im = BTreeMap::new();
            if let V::Map(mm) = inner {
                for (a, ops) in mm {
                    let V::Text(a) = a else { return None };
                    let V::Array(ops) = ops else { return None };
                    let ops: Option<Vec<Op>> = ops.iter().map(outpoint).collect();
                    im.insert(a.clone(), ops?);
                }
            } else {
                return None;
            }
            out.insert(h, im);
        }
        Some(out)
    } else {
        None
    }
}

/// Decodes the serialised `UnstableBlocks` (its own `Serialize` impl) into plain data.
pub fn dump_unstable() -> Result<UnstableDump, String> {
    let mut bytes = vec![];
    with_state(|s| ciborium::ser::into_writer(&s.unstable_blocks, &mut bytes)).map_err(|e| e.to_string())?;
    let v: V = ciborium::de::from_reader(bytes.as_slice()).map_err(|e| e.to_string())?;
    let mut d = UnstableDump::default();
    let tree = field(&v, "tree").ok_or("tree")?;
    let V::Array(items) = tree else { return Err("tree not array".into()) };
    for it in items {
        let V::Array(pair) = it else { return Err("tree item".into()) };
        let V::Array(triple) = &pair[0] else { return Err("tree triple".into()) };
        let h = bytes32(&triple[1]).ok_or("tree hash")?;
        let n = as_u64(&pair[1]).ok_or("tree n")? as usize;
        d.tree.push((h, n));
    }
    let oc = field(&v, "outpoints_cache").ok_or("outpoints_cache")?;
    if let Some(V::Map(m)) = field(oc, "tx_outs") {
        for (k, info) in m {
            let op = outpoint(k).ok_or("tx_outs key")?;
            let txout = field(info, "txout").ok_or("txout")?;
            let value = field(txout, "value").and_then(as_u64).ok_or("value")?;
            let script = field(txout, "script_pubkey").and_then(bytes_any).ok_or("script")?;
            let height = field(info, "height").and_then(as_u64).ok_or("height")? as u32;
            let count = field(info, "count").and_then(as_u64).ok_or("count")? as u32;
            d.tx_outs.insert(op, (value, script, height, count));
        }
    } else {
        return Err("tx_outs".into());
    }
    d.added = field(oc, "added_outpoints").and_then(addr_map).ok_or("added_outpoints")?;
    d.removed = field(oc, "removed_outpoints").and_then(addr_map).ok_or("removed_outpoints")?;
    let nh = field(&v, "next_block_headers").ok_or("next_block_headers")?;
    if let Some(V::Map(m)) = field(nh, "hash_to_height_and_header") {
        for (k, hv) in m {
            let h = bytes32(k).ok_or("hdr key")?;
            let V::Array(pair) = hv else { return Err("hdr value".into()) };
            let height = as_u64(&pair[0]).ok_or("hdr height")? as u32;
            let prev = field(&pair[1], "prev_blockhash").and_then(bytes_any).unwrap_or_default();
            d.hdr_by_hash.insert(h, (height, prev));
        }
    }
    if let Some(V::Map(m)) = field(nh, "height_to_hash") {
        for (k, hv) in m {
            let height = as_u64(k).ok_or("h2h key")? as u32;
            let V::Array(list) = hv else { return Err("h2h value".into()) };
            let hs: Option<Vec<H32>> = list.iter().map(bytes32).collect();
            d.hdr_by_height.insert(height, hs.ok_or("h2h hashes")?);
        }
    }
    if let Some(V::Array(t)) = field(&v, "tip_depths_cache") {
        d.tip_depths = t.iter().filter_map(as_u64).collect();
    }
    Ok(d)
}

fn address_of(w: &World, script: &[u8]) -> Option<String> {
    crate::factory::address_text(&bitcoin::ScriptBuf::from_bytes(script.to_vec()), w.net())
}

pub fn check_bookkeeping(w: &World, out: &mut Out) {
    let anchor = w.anchor();
    if !w.refm.has(&anchor) {
        out.violation("anchor-unknown", None, json!({}));
        return;
    }
    let d = match dump_unstable() {
        Ok(d) => d,
        Err(e) => {
            out.violation("machinery:dump", None, json!({"error": e}));
            return;
        }
    };
    let r = w.refm.subtree(&anchor); // pre-order, children in arrival order
    let rset: BTreeSet<H32> = r.iter().copied().collect();
    // tree = R in pre-order with arrival-ordered children
    let tree_hashes: Vec<H32> = d.tree.iter().map(|x| x.0).collect();
    if tree_hashes != r {
        out.violation(
            "tree-order-or-content",
            None,
            json!({"expected": r.iter().map(|h| short(h)).collect::<Vec<_>>(),
                   "observed": tree_hashes.iter().map(|h| short(h)).collect::<Vec<_>>()}),
        );
    }
    for (h, n) in &d.tree {
        if w.refm.has(h) && w.refm.kids(h).len() != *n {
            out.violation("tree-child-count", None, json!({"block": short(h), "expected": w.refm.kids(h).len(), "observed": n}));
        }
    }
    // block cache
    let cache: BTreeMap<H32, Vec<u8>> = with_state(|s| s.unstable_blocks.verif_block_cache())
        .into_iter()
        .map(|(h, b)| (h.as_bytes().try_into().unwrap(), b))
        .collect();
    let ckeys: BTreeSet<H32> = cache.keys().copied().collect();
    if ckeys != rset {
        let leaked: Vec<String> = ckeys.difference(&rset).map(|h| short(h)).collect();
        let missing: Vec<String> = rset.difference(&ckeys).map(|h| short(h)).collect();
        out.violation("block-cache-keys", None, json!({"leaked": leaked, "missing": missing}));
    }
    for (h, bytes) in &cache {
        if let Some(b) = w.blocks.get(h) {
            if crate::factory::block_bytes(b) != *bytes {
                out.violation("block-cache-bytes", None, json!({"block": short(h)}));
            }
        }
    }
    // per-block deltas
    let akeys: BTreeSet<H32> = d.added.keys().copied().collect();
    let rkeys: BTreeSet<H32> = d.removed.keys().copied().collect();
    if akeys != rset || rkeys != rset {
        out.violation(
            "delta-map-keys",
            None,
            json!({"added_leaked": akeys.difference(&rset).count(), "added_missing": rset.difference(&akeys).count(),
                   "removed_leaked": rkeys.difference(&rset).count(), "removed_missing": rset.difference(&rkeys).count()}),
        );
    }
    // expected tx-out reference counts and delta contents from the block bodies
    let mut want_count: BTreeMap<Op, u32> = BTreeMap::new();
    let mut want_out: BTreeMap<Op, (u64, Vec<u8>)> = BTreeMap::new();
    for h in &r {
        let b = w.refm.get(h);
        // outputs known to this block: ledger at the parent plus earlier outputs of the block
        let mut known: BTreeMap<Op, (u64, Vec<u8>)> = BTreeMap::new();
        if b.hash != w.refm.genesis {
            if let Ok(l) = w.refm.ledger_at(&b.parent) {
                for (k, e) in l {
                    known.insert(k, (e.value, e.script));
                }
            }
        }
        let mut added: BTreeMap<String, Vec<Op>> = BTreeMap::new();
        let mut removed: BTreeMap<String, Vec<Op>> = BTreeMap::new();
        let mut created: BTreeSet<Op> = BTreeSet::new();
        let mut spent: BTreeSet<Op> = BTreeSet::new();
        for tx in &b.txs {
            for inp in &tx.inputs {
                spent.insert(*inp);
                if let Some((v, s)) = known.get(inp) {
                    want_out.insert(*inp, (*v, s.clone()));
                    if let Some(a) = address_of(w, s) {
                        removed.entry(a).or_default().push(*inp);
                    }
                }
            }
            for (i, o) in tx.outputs.iter().enumerate() {
                let op = (tx.txid, i as u32);
                created.insert(op);
                known.insert(op, (o.value, o.script.clone()));
                want_out.insert(op, (o.value, o.script.clone()));
                if let Some(a) = address_of(w, &o.script) {
                    added.entry(a).or_default().push(op);
                }
            }
        }
        for op in created.iter().chain(spent.iter()) {
            *want_count.entry(*op).or_insert(0) += 1;
        }
        if let Some(got) = d.added.get(h) {
            if *got != added {
                out.violation("added-outpoints-content", None, json!({"block": short(h)}));
            }
        }
        if let Some(got) = d.removed.get(h) {
            if *got != removed {
                out.violation("removed-outpoints-content", None, json!({"block": short(h)}));
            }
        }
    }
    let got_count: BTreeMap<Op, u32> = d.tx_outs.iter().map(|(k, v)| (*k, v.3)).collect();
    if got_count != want_count {
        let leaked = got_count.keys().filter(|k| !want_count.contains_key(*k)).count();
        let missing = want_count.keys().filter(|k| !got_count.contains_key(*k)).count();
        let wrong = got_count
            .iter()
            .filter(|(k, c)| want_count.get(*k).map(|w| w != *c).unwrap_or(false))
            .count();
        out.violation(
            "tx-out-reference-counts",
            None,
            json!({"leaked_entries": leaked, "missing_entries": missing, "wrong_counts": wrong}),
        );
    }
    for (op, (v, s, _h, _c)) in &d.tx_outs {
        if let Some((wv, ws)) = want_out.get(op) {
            if wv != v || ws != s {
                out.violation("tx-out-content", None, json!({"outpoint": format!("{}:{}", short(&op.0), op.1)}));
            }
        }
    }
    if want_count.values().any(|c| *c >= 3) {
        out.count("states_with_outpoint_referenced_by_three_blocks");
    }
    // cached tip depths
    let mut want_depths: Vec<u64> = w.refm.leaf_paths(&anchor).iter().map(|p| p.len() as u64).collect();
    want_depths.sort();
    let mut got_depths = d.tip_depths.clone();
    got_depths.sort();
    if want_depths != got_depths {
        out.violation("tip-depths-cache", None, json!({"expected": want_depths, "observed": got_depths}));
    }
    // announced headers
    let sh = w.stable_height();
    for (h, (height, _)) in &d.hdr_by_hash {
        if rset.contains(h) {
            out.violation("announced-header-of-arrived-block", None, json!({"hash": short(h)}));
        }
        if *height <= sh {
            out.violation("announced-header-at-or-below-stable-height", None, json!({"height": height, "stable_height": sh}));
        }
        if !d.hdr_by_height.get(height).map(|v| v.contains(h)).unwrap_or(false) {
            out.violation("announced-header-maps-inconsistent", None, json!({"hash": short(h)}));
        }
    }
    for (height, hs) in &d.hdr_by_height {
        for h in hs {
            if d.hdr_by_hash.get(h).map(|x| x.0) != Some(*height) {
                out.violation("announced-header-maps-inconsistent", None, json!({"height": height}));
            }
        }
        if hs.is_empty() {
            out.violation("announced-header-empty-bucket", None, json!({"height": height}));
        }
    }
    out.count("bookkeeping_states_checked");
}

impl Oracle for C20 {
    type Mon = Mon;
    fn prop(&self) -> &'static str {
        "C20"
    }
    fn on_transition(&self, _w: &mut World, _m: &mut Mon, _ev: &Ev, pre: &Snap, _a: &Applied, check: bool, out: &mut Out) {
        if check {
            let post_anchor = _w.anchor();
            if post_anchor != pre.anchor {
                let discarded = pre.tree.len() as i64 - _w.tree_hashes().len() as i64 - 1;
                if discarded >= 1 {
                    out.count("advances_discarding_blocks");
                }
                if discarded >= 2 {
                    out.count("advances_discarding_two_or_more_blocks");
                }
            }
        }
    }
    fn settle(&self, w: &mut World) {
        // the fee computation fills the fee cache and the per-block fee rates: it is part of
        // every step, so that the probe below is free of side effects
        let _ = w.fee_percentiles();
    }
    fn on_state(&self, w: &mut World, _mon: &mut Mon, hist: &[Ev], out: &mut Out) {
        out.distinct.insert(fp64(&crate::world::state_bytes(true)));
        check_bookkeeping(w, out);
        if hist.iter().any(|e| matches!(e, Ev::Upgrade { .. })) {
            out.count("states_after_an_upgrade");
        }
        // every later query / fee computation finds what it needs
        for a in 0..w.book.addrs.len() {
            let text = w.book.text(a).to_string();
            if let Err(p) = w.utxos_all(&text, None, None) {
                out.violation("query-trap", None, json!({"address": text, "panic": p}));
            }
            if let Err(p) = w.balance(&text, None) {
                out.violation("query-trap", None, json!({"address": text, "panic": p}));
            }
        }
        match w.fee_percentiles() {
            Err(p) => out.violation("fee-computation-trap", None, json!({"panic": p})),
            Ok(v) => {
                out.outcomes.insert(fp64(&v.iter().flat_map(|x| x.to_le_bytes()).collect::<Vec<u8>>()));
            }
        }
    }
}

pub fn run(tier: &str) -> i32 {
    let mut rep = Report::new("C20", tier, "model_checking");
    let quick = tier == "quick";
    let all = vec![BODY_CB, BODY_SPEND_PARENT, BODY_CHAIN, BODY_ODD, BODY_SHARED, BODY_SPEND_OLD, BODY_MULTI];
    // (net, theta, n, diffs, bodies, special, budgets, upgrades)
    let parts: Vec<(Network, u32, usize, Vec<u8>, Vec<u8>, usize, Vec<u32>, usize)> = if quick {
        vec![
            (Network::Regtest, 1, 4, vec![1], all.clone(), 2, vec![0], 1),
            (Network::Regtest, 2, 4, vec![1], all.clone(), 2, vec![0, 1], 0),
            (Network::Regtest, 2, 5, vec![1, 2], vec![BODY_CB, BODY_SHARED, BODY_SPEND_PARENT], 1, vec![0], 0),
            // announced headers (the parts with at most two bodies offer one header event)
            (Network::Regtest, 2, 4, vec![1], vec![BODY_CB], 0, vec![0], 1),
        ]
    } else {
        vec![
            (Network::Regtest, 1, 5, vec![1], all.clone(), 2, vec![0, 1], 1),
            (Network::Regtest, 2, 5, vec![1], all.clone(), 2, vec![0], 1),
            (Network::Regtest, 2, 4, vec![1], all.clone(), 3, vec![0, 1], 1),
            (Network::Regtest, 3, 5, vec![1, 2], vec![BODY_CB, BODY_SHARED, BODY_SPEND_PARENT, BODY_SPEND_OLD], 2, vec![0], 1),
            (Network::Regtest, 2, 6, vec![1, 2], vec![BODY_CB, BODY_SHARED, BODY_SPEND_PARENT], 1, vec![0], 1),
            (Network::Mainnet, 2, 4, vec![1, 2], all.clone(), 2, vec![0, 1], 1),
            (Network::Testnet, 1, 4, vec![1], all.clone(), 2, vec![0, 1], 1),
            (Network::Regtest, 2, 5, vec![1, 2], vec![BODY_CB], 0, vec![0, 1], 1),
            (Network::Regtest, 2, 4, vec![1], vec![BODY_CB], 0, vec![0], 1),
            (Network::Regtest, 1, 4, vec![1], vec![BODY_CB], 0, vec![0], 0),
            (Network::Regtest, 1, 5, vec![1], vec![BODY_CB, BODY_SPEND_PARENT], 1, vec![0], 1),
        ]
    };
    for (net, theta, n, diffs, bodies, sp, budgets, ups) in parts {
        let mut alpha = ledger_alphabet(n, &diffs, sp);
        alpha.bodies = bodies.clone();
        alpha.budgets = budgets.clone();
        alpha.upgrades = vec![0];
        alpha.max_upgrades = ups;
        // announced headers (direct call into insert_next_block_headers): regtest only,
        // they must be mined to validate
        if net == Network::Regtest && bodies.len() <= 2 {
            alpha.hdr_lens = vec![1, 3];
            alpha.max_hdr_events = 1;
        }
        // competing announced headers (two announcements with a block in between give two
        // different headers at one height) whose blocks then arrive in any order
        if net == Network::Regtest && bodies.len() == 1 && n <= 4 {
            alpha.hdr_lens = vec![1, 2];
            alpha.max_hdr_events = 2;
            alpha.announced_blocks = true;
        }
        let m = ChainModel {
            cfg: WorldCfg::on(net, theta),
            alpha,
            oracle: C20,
        };
        let e = explore(&m, &Limits::new(2, if quick { 300 } else { 6000 }));
        rep.absorb(
            &format!("LEDGER net={} theta={} n={} D={:?} bodies={:?} special<={} budgets={:?} upgrades<={}", net, theta, n, diffs, bodies, sp, budgets, ups),
            e,
            json!({"network": net.to_string(), "threshold": theta, "max_blocks": n, "difficulties": diffs,
                   "bodies": bodies, "max_non_default_bodies": sp, "ingestion_budgets": budgets, "max_upgrades": ups}),
        );
    }
    rep.rule = "LEDGER/TREE histories (forks discarded at different depths, transactions shared between forks, outputs spent across forks) with upgrades and sliced ingestion, and competing announced headers whose blocks arrive in any order; in every state the serialised unstable-block bookkeeping (tree, tx-out cache with reference counts, per-block address deltas, cached tip depths, announced headers) and the block cache in stable memory are compared with what the blocks currently below the anchor require, recomputed from the block bodies; all queries and the fee computation must find every entry they need".into();
    rep.bounds = json!({"tier": tier});
    rep.assume("announced headers: one header event (chains of 1 and 3) per history here; C14 explores them more densely with the same structural checks");
    rep.floor("bookkeeping_states_checked", 5000);
    rep.floor("advances_discarding_blocks", 100);
    rep.floor("advances_discarding_two_or_more_blocks", 10);
    rep.floor("states_with_outpoint_referenced_by_three_blocks", 10);
    rep.floor("states_after_an_upgrade", 100);
    rep.finish()
}

//! C05 — balance equals the sum of the UTXOs reported for the same request.
use crate::chain::*;
use crate::engine::{explore, Limits, Out};
use crate::factory::Book;
use crate::props::c01::ledger_alphabet;
use crate::props::c04::cut_block;
use crate::refmodel::RefModel;
use crate::report::Report;
use crate::util::fp64;
use crate::world::{World, WorldCfg};
use ic_btc_interface::{GetBalanceError, GetUtxosError, Network, UtxosFilterInRequest};
use serde_json::json;

pub struct C05 {
    pub malformed: Vec<String>,
}

#[derive(Default)]
pub struct Mon;

fn uclass(e: &GetUtxosError) -> String {
    match e {
        GetUtxosError::MalformedAddress => "MalformedAddress".into(),
        GetUtxosError::AddressForWrongNetwork { expected } => format!("WrongNetwork({})", expected),
        GetUtxosError::MinConfirmationsTooLarge { given, max } => format!("TooLarge({},{})", given, max),
        GetUtxosError::UnknownTipBlockHash { .. } => "UnknownTip".into(),
        GetUtxosError::MalformedPage { .. } => "MalformedPage".into(),
    }
}
fn bclass(e: &GetBalanceError) -> String {
    match e {
        GetBalanceError::MalformedAddress => "MalformedAddress".into(),
        GetBalanceError::AddressForWrongNetwork { expected } => format!("WrongNetwork({})", expected),
        GetBalanceError::MinConfirmationsTooLarge { given, max } => format!("TooLarge({},{})", given, max),
    }
}

/// Malformed / foreign strings derived from the book of `net`.
pub fn malformed_set(net: Network) -> Vec<String> {
    let book = Book::new(net);
    let mut v: Vec<String> = vec![
        "".into(),
        " ".into(),
        "not an address".into(),
        "1".into(),
        "bc1".into(),
        "bcrt1q".into(),
        "x".repeat(200),
        "\u{0}".into(),
        "bc1qw508d6qejxtdg4y5r3zarvary0c5xw7kv8f3t4\n".into(),
    ];
    for a in [0usize, 2, 3, 4] {
        let t = book.text(a).to_string();
        v.push(t[..t.len() - 1].to_string()); // truncated
        let mut w = t.clone().into_bytes(); // wrong checksum
        let last = w.len() - 1;
        w[last] = if w[last] == b'q' { b'p' } else { b'q' };
        v.push(String::from_utf8(w).unwrap());
        v.push(format!(" {}", t)); // leading space
        v.push(format!("{} ", t)); // trailing space
        if a >= 2 {
            // mixed-case and upper-case bech32
            let half = t.len() / 2;
            v.push(format!("{}{}", &t[..half], t[half..].to_uppercase()));
            v.push(t.to_uppercase());
        }
    }
    for other in [Network::Mainnet, Network::Testnet, Network::Regtest] {
        if other != net {
            let ob = Book::new(other);
            for a in [0usize, 1, 2, 3, 4] {
                v.push(ob.text(a).to_string());
            }
        }
    }
    v
}

impl Oracle for C05 {
    type Mon = Mon;
    fn prop(&self) -> &'static str {
        "C05"
    }
    fn on_state(&self, w: &mut World, _mon: &mut Mon, _hist: &[Ev], out: &mut Out) {
        let anchor = w.anchor();
        if !w.refm.has(&anchor) {
            out.violation("anchor-unknown", None, json!({}));
            return;
        }
        out.distinct.insert(fp64(&crate::world::state_bytes(true)));
        let best = w.refm.best_chain(&anchor);
        let l = best.len() as u32;
        let forked = w.refm.leaf_paths(&anchor).len() >= 2;
        let ingesting = w.is_ingesting();
        if ingesting && matches!(_hist.last(), Some(Ev::Upgrade { .. })) {
            out.count("states_after_an_upgrade_during_a_paused_ingestion");
        }
        let mut cs: Vec<Option<u32>> = vec![None];
        for c in 0..=l + 1 {
            cs.push(Some(c));
        }
        for a in 0..w.book.addrs.len() {
            let text = w.book.text(a).to_string();
            for c in &cs {
                let u = w.utxos_all(&text, *c, None);
                let b = w.balance(&text, *c);
                match (&u, &b) {
                    (Err(p), _) | (_, Err(p)) => {
                        out.violation("trap", None, json!({"address": text, "c": c, "panic": p}));
                        continue;
                    }
                    (Ok(Ok(paged)), Ok(Ok(bal))) => {
                        if paged.follow_up_error.is_some() {
                            out.violation("follow-up-error", None, json!({"address": text, "c": c}));
                            continue;
                        }
                        let sum: u64 = paged.all().iter().map(|x| x.value).sum();
                        if sum != *bal {
                            // signature of finding F7: two different confirmation rules
                            let mut f = None;
                            if let Some(cv) = c {
                                if *cv >= 1 && *cv <= l {
                                    let script = w.book.script(a);
                                    let stab = cut_block(&w.refm, &anchor, &best, *cv)
                                        .and_then(|cb| w.refm.ledger_at(&cb).ok())
                                        .map(|led| RefModel::utxos_of(&led, script.as_bytes()).iter().map(|x| x.1).sum::<u64>());
                                    let by_height = best
                                        .get((l - *cv) as usize)
                                        .and_then(|hb| w.refm.ledger_at(hb).ok())
                                        .map(|led| RefModel::utxos_of(&led, script.as_bytes()).iter().map(|x| x.1).sum::<u64>());
                                    if stab == Some(sum) && by_height == Some(*bal) && stab != by_height {
                                        f = Some("F7");
                                    }
                                }
                            }
                            out.violation(
                                "balance-vs-utxo-sum",
                                f,
                                json!({"address": text, "address_name": w.book.addrs[a].name, "c": c,
                                       "balance": bal, "utxo_sum": sum, "ingesting": ingesting}),
                            );
                        } else {
                            out.count("comparisons");
                            // the same request followed through small pages (page size 1 and 2
                            // through hook H3): the sum over all pages must be the same balance
                            let n = paged.all().len();
                            for lim in [1usize, 2] {
                                if n <= lim {
                                    continue;
                                }
                                match w.utxos_all(&text, *c, Some(lim)) {
                                    Ok(Ok(pg)) => {
                                        let psum: u64 = pg.all().iter().map(|x| x.value).sum();
                                        if pg.follow_up_error.is_some() || psum != *bal {
                                            out.violation(
                                                "balance-vs-paged-utxo-sum",
                                                None,
                                                json!({"address": text, "address_name": w.book.addrs[a].name, "c": c, "page_size": lim,
                                                       "balance": bal, "paged_utxo_sum": psum, "pages": pg.pages.len(),
                                                       "follow_up_error": pg.follow_up_error.as_ref().map(|e| format!("{:?}", e)), "ingesting": ingesting}),
                                            );
                                        } else {
                                            out.count("comparisons_through_small_pages");
                                            if c.unwrap_or(0) >= 1 {
                                                out.count("comparisons_through_small_pages_with_min_confirmations");
                                            }
                                        }
                                    }
                                    Ok(Err(e)) => out.violation("paged-request-refused", None, json!({"address": text, "c": c, "page_size": lim, "error": format!("{:?}", e)})),
                                    Err(pn) => out.violation("trap", None, json!({"address": text, "c": c, "page_size": lim, "panic": pn})),
                                }
                            }
                            out.outcomes.insert(fp64(&[&sum.to_le_bytes()[..], &[a as u8]].concat()));
                            if sum > 0 {
                                out.count("comparisons_nonzero");
                                if forked {
                                    out.count("comparisons_nonzero_on_forked_state");
                                }
                                if ingesting {
                                    out.count("comparisons_nonzero_during_paused_ingestion");
                                }
                                if c.unwrap_or(0) >= 2 {
                                    out.count("comparisons_nonzero_c_ge_2");
                                }
                            }
                        }
                    }
                    (Ok(Err(ue)), Ok(Err(be))) => {
                        if uclass(ue) != bclass(be) {
                            out.violation(
                                "different-errors",
                                None,
                                json!({"address": text, "c": c, "utxos": uclass(ue), "balance": bclass(be)}),
                            );
                        } else {
                            out.count("agreeing_refusals");
                        }
                    }
                    (Ok(ur), Ok(br)) => {
                        out.violation(
                            "one-refuses",
                            None,
                            json!({"address": text, "c": c,
                                   "utxos": ur.as_ref().map(|_| "ok").map_err(uclass),
                                   "balance": br.as_ref().map(|_| "ok").map_err(bclass)}),
                        );
                    }
                }
            }
            // update variants return what the query variants return (first page)
            for c in [None, Some(1u32)] {
                let f = c.map(UtxosFilterInRequest::MinConfirmations);
                let f2 = c.map(UtxosFilterInRequest::MinConfirmations);
                let q = w.utxos_req(&text, f, None);
                let u = w.utxos_update(&text, f2);
                if q != u {
                    out.violation("utxos-query-vs-update", None, json!({"address": text, "c": c}));
                }
                let qb = w.balance(&text, c);
                let ub = w.balance_update(&text, c);
                if qb != ub {
                    out.violation("balance-query-vs-update", None, json!({"address": text, "c": c}));
                } else {
                    out.count("variant_comparisons");
                }
            }
        }
        for s in &self.malformed {
            for c in [None, Some(1u32), Some(l + 1)] {
                let u = w.utxos_req(s, c.map(UtxosFilterInRequest::MinConfirmations), None);
                let b = w.balance(s, c);
                let uc = match &u {
                    Err(p) => format!("TRAP:{}", p),
                    Ok(Ok(_)) => "ok".into(),
                    Ok(Err(e)) => uclass(e),
                };
                let bc = match &b {
                    Err(p) => format!("TRAP:{}", p),
                    Ok(Ok(_)) => "ok".into(),
                    Ok(Err(e)) => bclass(e),
                };
                if uc.starts_with("TRAP") || bc.starts_with("TRAP") {
                    out.violation("trap-on-address", None, json!({"address": s, "utxos": uc, "balance": bc}));
                } else if uc != bc {
                    out.violation("address-error-class", None, json!({"address": s, "c": c, "utxos": uc, "balance": bc}));
                } else {
                    out.count("address_string_comparisons");
                    if uc != "ok" {
                        out.count("address_strings_refused_by_both");
                    }
                }
            }
        }
    }
}

pub fn run(tier: &str) -> i32 {
    let mut rep = Report::new("C05", tier, "model_checking");
    let quick = tier == "quick";
    let few = vec![BODY_CB, BODY_SPEND_PARENT, BODY_CHAIN, BODY_COLLIDE, BODY_MULTI, BODY_ODD];
    // (net, theta, n, diffs, bodies, special, budgets)
    let parts: Vec<(Network, u32, usize, Vec<u8>, Vec<u8>, usize, Vec<u32>)> = if quick {
        vec![
            (Network::Regtest, 1, 3, vec![1], few.clone(), 2, vec![0, 1, 2]),
            (Network::Regtest, 2, 4, vec![1], vec![BODY_CB, BODY_SPEND_PARENT, BODY_MULTI], 1, vec![0, 2]),
            (Network::Regtest, 2, 3, vec![1, 3], vec![BODY_CB, BODY_SPEND_PARENT], 1, vec![0]),
            // the same transaction on two forks at different heights, then spent
            (Network::Regtest, 4, 5, vec![1], vec![BODY_CB, BODY_SHARED, BODY_SPEND_OLD], 3, vec![0]),
            (Network::Regtest, 3, 4, vec![1], vec![BODY_CB, BODY_CHAIN, BODY_ZEROS], 2, vec![0]),
        ]
    } else {
        vec![
            (Network::Regtest, 1, 4, vec![1], few.clone(), 2, vec![0, 1, 2]),
            (Network::Regtest, 2, 5, vec![1], few.clone(), 2, vec![0, 2]),
            (Network::Regtest, 3, 5, vec![1], vec![BODY_CB, BODY_SPEND_PARENT, BODY_MULTI], 2, vec![0]),
            (Network::Regtest, 2, 4, vec![1, 3], few.clone(), 2, vec![0, 1]),
            (Network::Mainnet, 2, 4, vec![1, 3], few.clone(), 2, vec![0, 1]),
            (Network::Testnet, 2, 4, vec![1], few.clone(), 2, vec![0, 1]),
        ]
    };
    for (net, theta, n, diffs, bodies, sp, budgets) in parts {
        let mut alpha = ledger_alphabet(n, &diffs, sp);
        alpha.bodies = bodies.clone();
        alpha.budgets = budgets.clone();
        // "on any state": also the states after an upgrade, in particular one that lands
        // between two slices of an ingestion (parts with sliced ingestion only)
        if budgets.len() >= 3 {
            alpha.upgrades = vec![0];
            alpha.max_upgrades = 1;
        }
        let m = ChainModel {
            cfg: WorldCfg::on(net, theta),
            alpha,
            oracle: C05 { malformed: malformed_set(net) },
        };
        let e = explore(&m, &Limits::new(2, if quick { 300 } else { 6000 }));
        rep.absorb(
            &format!("LEDGER net={} theta={} n={} D={:?} bodies={:?} special<={} budgets={:?}", net, theta, n, diffs, bodies, sp, budgets),
            e,
            json!({"network": net.to_string(), "threshold": theta, "max_blocks": n, "difficulties": diffs,
                   "bodies": bodies, "max_non_default_bodies": sp, "ingestion_budgets": budgets}),
        );
    }
    rep.rule = "LEDGER histories with sliced ingestion events (budgets 1, 2, unlimited, so states during ingestion are reached) and, in the sliced parts, one upgrade at any boundary; in every state, for every book address and c in {none, 0..L+1}: get_balance vs the sum over all pages of get_utxos (page size 1000, and 1 and 2 through hook H3); error classes of both on ~45 malformed / foreign-network strings; query vs update variants".into();
    rep.bounds = json!({"tier": tier});
    rep.assume("differential oracle: no reference value is needed, the two endpoints are compared with each other");
    rep.floor("states_after_an_upgrade_during_a_paused_ingestion", 10);
    rep.floor("comparisons_through_small_pages", 1000);
    rep.floor("comparisons_through_small_pages_with_min_confirmations", 100);
    rep.floor("comparisons_nonzero", 10_000);
    rep.floor("comparisons_nonzero_on_forked_state", 1000);
    rep.floor("comparisons_nonzero_during_paused_ingestion", 100);
    rep.floor("comparisons_nonzero_c_ge_2", 1000);
    rep.floor("address_strings_refused_by_both", 1000);
    rep.finish()
}

//! C19 — send_transaction forwards exactly the well-formed transactions.
use crate::engine::Out;
use crate::factory::{self, *};
use crate::report::Report;
use crate::util::{classify_refusal, fp64, guarded, Refusal};
use crate::world::WorldCfg;
use bitcoin::absolute::LockTime;
use bitcoin::transaction::Version;
use bitcoin::{Amount, OutPoint, ScriptBuf, Sequence, Transaction, TxIn, TxOut, Witness};
use ic_btc_canister::runtime::verif_hooks as rt;
use ic_btc_canister::with_state;
use ic_btc_interface::{Network, SendTransactionError, SendTransactionRequest};
use serde_json::json;
use std::collections::HashSet;
use std::future::Future;
use std::task::{Context, Poll, Waker};

// ------------------------------------------------------------------ strict parser
// Independent of rust-bitcoin: Bitcoin Core's transaction unserialisation rules, and the
// input must be consumed exactly.

struct Rd<'a> {
    b: &'a [u8],
    p: usize,
}

impl<'a> Rd<'a> {
    fn take(&mut self, n: usize) -> Option<&'a [u8]> {
        if self.b.len() - self.p < n {
            return None;
        }
        let s = &self.b[self.p..self.p + n];
        self.p += n;
        Some(s)
    }
    fn u8(&mut self) -> Option<u8> {
        self.take(1).map(|s| s[0])
    }
    /// canonical compact size
    fn varint(&mut self) -> Option<u64> {
        let f = self.u8()?;
        match f {
            0..=0xfc => Some(f as u64),
            0xfd => {
                let v = u16::from_le_bytes(self.take(2)?.try_into().ok()?) as u64;
                if v < 0xfd {
                    None
                } else {
                    Some(v)
                }
            }
            0xfe => {
                let v = u32::from_le_bytes(self.take(4)?.try_into().ok()?) as u64;
                if v < 0x1_0000 {
                    None
                } else {
                    Some(v)
                }
            }
            0xff => {
                let v = u64::from_le_bytes(self.take(8)?.try_into().ok()?);
                if v < 0x1_0000_0000 {
                    None
                } else {
                    Some(v)
                }
            }
        }
    }
    fn bytes(&mut self) -> Option<&'a [u8]> {
        let n = self.varint()?;
        if n > 4_000_000 {
            return None;
        }
        self.take(n as usize)
    }
}

#[derive(Debug, PartialEq, Eq, Clone, Copy)]
pub enum Strict {
    WellFormed,
    Malformed,
}

fn read_inputs(r: &mut Rd) -> Option<usize> {
    let n = r.varint()?;
    if n > 100_000 {
        return None;
    }
    for _ in 0..n {
        r.take(36)?;
        r.bytes()?;
        r.take(4)?;
    }
    Some(n as usize)
}

fn read_outputs(r: &mut Rd) -> Option<usize> {
    let n = r.varint()?;
    if n > 100_000 {
        return None;
    }
    for _ in 0..n {
        r.take(8)?;
        r.bytes()?;
    }
    Some(n as usize)
}

/// Core's rules: version, vin; if vin is empty a flags byte follows; flags != 0 => vin, vout
/// again; bit 0 => witnesses (at least one non-empty); other bits unknown; lock time; EOF.
pub fn strict_parse(b: &[u8]) -> Strict {
    fn inner(b: &[u8]) -> Option<()> {
        let mut r = Rd { b, p: 0 };
        r.take(4)?;
        let mut nin = read_inputs(&mut r)?;
        let mut flags = 0u8;
        if nin == 0 {
            flags = r.u8()?;
            if flags != 0 {
                nin = read_inputs(&mut r)?;
                read_outputs(&mut r)?;
            }
        } else {
            read_outputs(&mut r)?;
        }
        if flags & 1 != 0 {
            flags ^= 1;
            let mut any = false;
            for _ in 0..nin {
                let items = r.varint()?;
                if items > 100_000 {
                    return None;
                }
                if items > 0 {
                    any = true;
                }
                for _ in 0..items {
                    r.bytes()?;
                }
            }
            if !any {
                return None; // superfluous witness record
            }
        }
        if flags != 0 {
            return None; // unknown optional data
        }
        r.take(4)?;
        if r.p != b.len() {
            return None;
        }
        Some(())
    }
    if inner(b).is_some() {
        Strict::WellFormed
    } else {
        Strict::Malformed
    }
}

/// Second reading: rust-bitcoin's exact deserialiser and re-encoding.
pub fn roundtrip_ok(b: &[u8]) -> bool {
    match bitcoin::consensus::deserialize::<Transaction>(b) {
        Ok(tx) => bitcoin::consensus::serialize(&tx) == b,
        Err(_) => false,
    }
}

// ------------------------------------------------------------------ payloads

fn txin(tag: u8, script: Vec<u8>, witness: Vec<Vec<u8>>) -> TxIn {
    let mut w = Witness::new();
    for i in witness {
        w.push(i);
    }
    TxIn {
        previous_output: OutPoint {
            txid: {
                use bitcoin::hashes::Hash;
                bitcoin::Txid::from_byte_array([tag; 32])
            },
            vout: tag as u32,
        },
        script_sig: ScriptBuf::from_bytes(script),
        sequence: Sequence(0xffff_fff0 + (tag as u32 % 16)),
        witness: w,
    }
}

fn txout(v: u64, s: ScriptBuf) -> TxOut {
    TxOut {
        value: Amount::from_sat(v),
        script_pubkey: s,
    }
}

/// Field values at the edges of their types (amounts whose sum overflows, 253+ inputs or
/// outputs so that the counts need a 3-byte varint, extreme sequence numbers): all of them
/// are exact consensus serialisations and must be forwarded.
fn extreme_transactions() -> Vec<(&'static str, Vec<u8>)> {
    let mk = |version: i32, lock: u32, input: Vec<TxIn>, output: Vec<TxOut>| {
        bitcoin::consensus::serialize(&Transaction {
            version: Version(version),
            lock_time: LockTime::from_consensus(lock),
            input,
            output,
        })
    };
    let mut v: Vec<(&'static str, Vec<u8>)> = vec![];
    let edge = [0u64, 1, 1 << 63, u64::MAX - 1, u64::MAX];
    let names: [&'static str; 25] = [
        "amounts 0,0", "amounts 0,1", "amounts 0,2^63", "amounts 0,max-1", "amounts 0,max",
        "amounts 1,0", "amounts 1,1", "amounts 1,2^63", "amounts 1,max-1", "amounts 1,max",
        "amounts 2^63,0", "amounts 2^63,1", "amounts 2^63,2^63", "amounts 2^63,max-1", "amounts 2^63,max",
        "amounts max-1,0", "amounts max-1,1", "amounts max-1,2^63", "amounts max-1,max-1", "amounts max-1,max",
        "amounts max,0", "amounts max,1", "amounts max,2^63", "amounts max,max-1", "amounts max,max",
    ];
    for (i, a) in edge.iter().enumerate() {
        for (j, b) in edge.iter().enumerate() {
            v.push((names[i * 5 + j], mk(2, 0, vec![txin(20, vec![0x51], vec![])], vec![txout(*a, p2wpkh(1)), txout(*b, p2pkh(2))])));
        }
    }
    // the null previous output (the shape of a coinbase input) is just another outpoint for
    // the serialisation: alone, with a witness, and next to an ordinary input
    let null_in = |script: Vec<u8>, witness: Vec<Vec<u8>>| {
        let mut i = txin(0, script, witness);
        i.previous_output = OutPoint::null();
        i
    };
    v.push(("single null previous output (legacy)", mk(1, 0, vec![null_in(vec![0x51, 0x52], vec![])], vec![txout(50, p2pkh(1))])));
    v.push(("single null previous output (segwit)", mk(2, 0, vec![null_in(vec![0x03, 1, 2, 3], vec![vec![0; 32]])], vec![txout(50, p2wpkh(1)), txout(0, op_return())])));
    v.push(("null previous output next to an ordinary input", mk(2, 0, vec![null_in(vec![], vec![]), txin(24, vec![0x51], vec![])], vec![txout(1, p2tr(2))])));
    v.push(("three outputs of 2^63", mk(2, 0, vec![txin(21, vec![], vec![vec![1; 64]])], vec![txout(1 << 63, p2tr(1)), txout(1 << 63, p2tr(2)), txout(1 << 63, p2tr(3))])));
    v.push(("253 outputs", mk(2, 0, vec![txin(22, vec![0x51], vec![])], (0..253).map(|i| txout(i as u64, p2wpkh((i % 200) as u8))).collect())));
    v.push(("253 inputs", mk(2, 0, (0..253).map(|i| txin((30 + i % 200) as u8, vec![], vec![])).collect(), vec![txout(1, p2pkh(3))])));
    v.push(("300 outputs of max", mk(1, u32::MAX, vec![txin(23, vec![0x51], vec![])], (0..300).map(|_| txout(u64::MAX, ScriptBuf::new())).collect())));
    v
}

pub fn base_transactions() -> Vec<(&'static str, Vec<u8>)> {
    let mk = |version: i32, lock: u32, input: Vec<TxIn>, output: Vec<TxOut>| {
        bitcoin::consensus::serialize(&Transaction {
            version: Version(version),
            lock_time: LockTime::from_consensus(lock),
            input,
            output,
        })
    };
    vec![
        ("legacy 1-in 1-out", mk(1, 0, vec![txin(1, vec![0x51], vec![])], vec![txout(5, p2pkh(1))])),
        ("legacy 2-in 2-out", mk(2, 0, vec![txin(1, vec![1, 2, 3], vec![]), txin(2, vec![], vec![])], vec![txout(5, p2pkh(1)), txout(0, p2sh(2))])),
        ("legacy 3-in 3-out long script", mk(2, 500_000, vec![txin(1, vec![7; 80], vec![]), txin(2, vec![8; 2], vec![]), txin(3, vec![], vec![])], vec![txout(1, p2wpkh(1)), txout(2, p2wsh(2)), txout(3, large_script(3))])),
        ("segwit 1-in 1-out one item", mk(2, 0, vec![txin(4, vec![], vec![vec![9; 72]])], vec![txout(9, p2wpkh(4))])),
        ("segwit 2-in two items and none", mk(2, 0, vec![txin(4, vec![], vec![vec![9; 72], vec![3; 33]]), txin(5, vec![0x00], vec![])], vec![txout(9, p2tr(4))])),
        ("segwit empty item", mk(2, 0, vec![txin(6, vec![], vec![vec![], vec![1]])], vec![txout(1, p2wsh(6)), txout(2, op_return())])),
        ("zero outputs", mk(1, 0, vec![txin(7, vec![0x51], vec![])], vec![])),
        ("zero inputs zero outputs", mk(0, 0, vec![], vec![])),
        ("zero inputs one output", mk(1, 0, vec![], vec![txout(1, p2pkh(8))])),
        ("max locktime", mk(i32::MAX, u32::MAX, vec![txin(9, vec![], vec![])], vec![txout(u64::MAX, ScriptBuf::new())])),
        ("negative version", mk(-1, 1, vec![txin(10, vec![0x6a], vec![])], vec![txout(21_000_000 * 100_000_000, p2pkh(10))])),
        ("253-byte script (3-byte varint)", mk(2, 0, vec![txin(11, vec![0x42; 253], vec![])], vec![txout(7, p2sh(11))])),
    ]
}

fn mutations(base: &[u8], quick: bool) -> Vec<Vec<u8>> {
    let mut v: Vec<Vec<u8>> = vec![base.to_vec()];
    // every truncation
    for n in 0..base.len() {
        v.push(base[..n].to_vec());
    }
    // every 1-byte extension; 2 and 33 bytes
    for b in 0..=255u8 {
        let mut e = base.to_vec();
        e.push(b);
        v.push(e);
    }
    for extra in [2usize, 33] {
        let mut e = base.to_vec();
        e.extend(vec![0u8; extra]);
        v.push(e);
        let mut e = base.to_vec();
        e.extend(vec![0xffu8; extra]);
        v.push(e);
    }
    // the payload twice (two transactions)
    let mut twice = base.to_vec();
    twice.extend(base);
    v.push(twice);
    // leading junk
    let mut lead = vec![0u8];
    lead.extend(base);
    v.push(lead);
    // single-bit flips
    let nbits = base.len() * 8;
    for bit in 0..nbits {
        // the bulk transactions (253+ inputs or outputs): flips in the head (version, marker,
        // counts, first input) and the tail (last output, lock time) only
        if base.len() > 600 {
            let byte = bit / 8;
            if byte >= 80 && byte + 16 < base.len() {
                continue;
            }
        }
        let _ = quick;
        let mut f = base.to_vec();
        f[bit / 8] ^= 1 << (bit % 8);
        v.push(f);
    }
    // marker / flag edge cases after the version
    if base.len() > 6 {
        for (m, fl) in [(0u8, 0u8), (0, 1), (0, 2), (0, 3), (0, 0x81), (1, 0), (0xfd, 0)] {
            let mut e = base[..4].to_vec();
            e.push(m);
            e.push(fl);
            e.extend(&base[4..]);
            v.push(e);
            let mut r = base.to_vec();
            r[4] = m;
            r[5] = fl;
            v.push(r);
        }
    }
    v
}

fn send(payload: &[u8], net: Network, lower: bool) -> Result<Result<(), SendTransactionError>, String> {
    let req = SendTransactionRequest {
        transaction: payload.to_vec(),
        network: crate::world::net_req_spelled(net, lower),
    };
    guarded(|| {
        let mut fut = Box::pin(ic_btc_canister::send_transaction(req));
        let mut cx = Context::from_waker(Waker::noop());
        match fut.as_mut().poll(&mut cx) {
            Poll::Ready(r) => r,
            Poll::Pending => panic!("send_transaction pending natively"),
        }
    })
}

fn counter() -> u64 {
    with_state(|s| s.metrics.send_transaction_count)
}

pub fn run(tier: &str) -> i32 {
    let mut rep = Report::new("C19", tier, "exploration");
    let quick = tier == "quick";
    let mut bases = base_transactions();
    bases.extend(extreme_transactions());
    let canister_nets = if quick { vec![Network::Regtest, Network::Mainnet] } else { vec![Network::Regtest, Network::Mainnet, Network::Testnet] };
    let results: Vec<Out> = std::thread::scope(|sc| {
        let mut hs = vec![];
        // (canister network, api access, canister behind the announced headers, custom blocks source)
        let mut variants: Vec<(Network, bool, bool, bool)> = vec![];
        for cn in &canister_nets {
            for access in [true, false] {
                variants.push((*cn, access, false, false));
            }
        }
        // forwarded to the *configured* source: a canister initialised with another one
        variants.push((Network::Regtest, true, false, true));
        // the sync rule does not apply to send_transaction: same verdicts on a canister that
        // is more than two blocks behind the announced headers (sync flag on)
        variants.push((Network::Regtest, true, true, false));
        for (cn, access, unsynced, custom_source) in variants {
            {
                let bases = &bases;
                hs.push(sc.spawn(move || {
                    let mut out = Out::default();
                    let mut cfg = WorldCfg::on(cn, 2);
                    cfg.api_access = access;
                    cfg.disable_if_not_synced = unsynced;
                    cfg.custom_source = custom_source;
                    let mut world = crate::world::World::new(cfg.clone());
                    if unsynced {
                        let a = crate::chain::apply_ev(&mut world, &crate::chain::Ev::Hdr { on: 0, len: 4 });
                        assert_eq!(a, crate::chain::Applied::HeadersAnnounced);
                        // the other data endpoints do refuse in this state
                        let r = world.balance(world.book.text(0), None);
                        if !matches!(r, Err(ref p) if p.starts_with("Canister state is not fully synced")) {
                            out.violation("machinery:unsynced-setup", None, json!({"got": format!("{:?}", r)}));
                        }
                        out.count("unsynced_canister_variants");
                    }
                    let source = crate::world::configured_source(&cfg);
                    if custom_source {
                        out.count("custom_blocks_source_variants");
                    }
                    let mut seen: HashSet<u64> = HashSet::new();
                    for (name, base) in bases.iter() {
                        for payload in mutations(base, quick) {
                            for (rn, lower) in [(Network::Mainnet, false), (Network::Testnet, false), (Network::Regtest, false), (Network::Mainnet, true), (Network::Testnet, true), (Network::Regtest, true)] {
                                // the lower-case spellings of the request-side network type: on every
                                // base transaction and a fifth of the mutations
                                if lower && payload != *base && payload.len() % 5 != 0 {
                                    continue;
                                }
                                if lower {
                                    out.count("calls_with_the_lower_case_network_spelling");
                                }
                                if !access && rn != cn && payload.len() % 7 != 0 {
                                    continue; // both guards at once: sampled thinly, same verdict
                                }
                                let strict = strict_parse(&payload);
                                let rt_ok = roundtrip_ok(&payload);
                                let decided = (strict == Strict::WellFormed) == rt_ok;
                                let well_formed = strict == Strict::WellFormed && rt_ok;
                                let _ = rt::take_sent_transactions();
                                let c0 = counter();
                                let r = send(&payload, rn, lower);
                                let sent = rt::take_sent_transactions();
                                let c1 = counter();
                                out.states += 1;
                                seen.insert(fp64(&payload));
                                let hist = || json!({"base": name, "payload": hex::encode(&payload), "canister_network": cn.to_string(),
                                    "requested_network": rn.to_string(), "lower_case_spelling": lower, "api_access": access, "canister_behind_announced_headers": unsynced, "custom_blocks_source": custom_source});
                                let expect_refusal = !access || rn != cn;
                                match r {
                                    Err(p) => {
                                        let refusal = classify_refusal(&p);
                                        let ok = match refusal {
                                            Refusal::ApiDisabled => !access,
                                            Refusal::WrongNetwork => rn != cn,
                                            _ => false,
                                        };
                                        if !ok {
                                            out.set_history(hist());
                                            out.violation("trap", None, json!({"panic": p}));
                                        } else {
                                            out.count("guard_refusals");
                                        }
                                        if !sent.is_empty() || c1 != c0 {
                                            out.set_history(hist());
                                            out.violation("refused-but-forwarded-or-counted", None, json!({"forwarded": sent.len(), "counted": c1 - c0}));
                                        }
                                    }
                                    Ok(Ok(())) => {
                                        if expect_refusal {
                                            out.set_history(hist());
                                            out.violation("guard-not-applied", None, json!({}));
                                        } else if !decided {
                                            out.count("undecided_payloads");
                                        } else if !well_formed {
                                            // signature of finding F5: strict prefix + non-empty suffix
                                            let f5 = (1..payload.len()).any(|n| strict_parse(&payload[..n]) == Strict::WellFormed && roundtrip_ok(&payload[..n]))
                                                && sent.len() == 1 && sent[0].1.transaction == payload;
                                            out.set_history(hist());
                                            out.violation("malformed-payload-accepted", if f5 { Some("F5") } else { None }, json!({"len": payload.len()}));
                                        } else {
                                            out.count("accepted_well_formed");
                                        }
                                        if !expect_refusal {
                                            let fwd_ok = sent.len() == 1
                                                && sent[0].0 == source
                                                && sent[0].1.transaction == payload
                                                && sent[0].1.network == cn;
                                            if !fwd_ok || c1 != c0 + 1 {
                                                out.set_history(hist());
                                                out.violation("forwarding", None, json!({"forwarded": sent.len(), "counted": c1 - c0, "destination": sent.first().map(|s| s.0.to_text()), "configured_source": source.to_text(),
                                                    "identical_bytes": sent.first().map(|s| s.1.transaction == payload)}));
                                            }
                                        }
                                    }
                                    Ok(Err(e)) => {
                                        if e != SendTransactionError::MalformedTransaction {
                                            out.set_history(hist());
                                            out.violation("unexpected-error", None, json!({"error": format!("{:?}", e)}));
                                        }
                                        if expect_refusal {
                                            out.set_history(hist());
                                            out.violation("guard-not-applied", None, json!({"error": format!("{:?}", e)}));
                                        } else if !decided {
                                            out.count("undecided_payloads");
                                        } else if well_formed {
                                            out.set_history(hist());
                                            out.violation("well-formed-payload-refused", None, json!({"len": payload.len()}));
                                        } else {
                                            out.count("refused_malformed");
                                        }
                                        if !sent.is_empty() || c1 != c0 {
                                            out.set_history(hist());
                                            out.violation("refused-but-forwarded-or-counted", None, json!({"forwarded": sent.len(), "counted": c1 - c0}));
                                        }
                                    }
                                }
                            }
                        }
                    }
                    out.distinct = seen;
                    out.leaves += 1;
                    out
                }));
            }
        }
        hs.into_iter().map(|h| h.join().expect("worker")).collect()
    });
    for o in results {
        rep.out.merge(o);
    }
    rep.evaluations = rep.out.states;
    rep.out.samples.push(json!({"base": bases[3].0, "payload": hex::encode(&bases[3].1), "mutation": "every truncation / 1-byte extension (256 values) / 2- and 33-byte extension / doubled / leading byte / every single-bit flip / marker-flag edge cases"}));
    rep.out.samples.push(json!({"bases": bases.iter().map(|b| b.0).collect::<Vec<_>>() }));
    rep.rule = "12 base transactions (legacy/segwit, 0-3 inputs and outputs, empty and long scripts, witnesses with 0/1/2 items, extreme version/locktime/value) and 32 with field values at the edges of their types (incl. the null previous output) (all pairs of output amounts over {0, 1, 2^63, max-1, max}, sums that overflow, 253 inputs / outputs, 300 outputs) x every truncation, every 1-byte extension, 2- and 33-byte extensions, duplication, leading byte, every single-bit flip, marker/flag edge cases x api_access x requested network (both spellings of the request-side type) x canister network; distinct = distinct payload bytes; a payload is decided when an independent strict parser (Core's rules, exact consumption) and the exact round trip agree".into();
    rep.bounds = json!({"tier": tier, "bases": bases.len()});
    rep.assume("payloads on which the two reference readings disagree are counted as undecided and not judged");
    rep.assume("the inter-canister call itself is the native mock (records the request, replies at once)");
    rep.floor("accepted_well_formed", 50);
    rep.floor("refused_malformed", 10_000);
    rep.floor("guard_refusals", 10_000);
    rep.floor("unsynced_canister_variants", 1);
    rep.floor("calls_with_the_lower_case_network_spelling", 1000);
    let _ = factory::REGTEST_BITS;
    rep.finish()
}

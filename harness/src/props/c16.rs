//! C16 — cycles charged follow the published formula and never exceed the maximum.
use crate::engine::Out;
use crate::factory::{self, *};
use crate::report::Report;
use crate::util::{classify_refusal, fp64, guarded, Refusal};
use crate::world::{net_req, World, WorldCfg};
use ic_btc_canister::runtime::verif_hooks as rt;
use ic_btc_interface::{
    Fees, GetBalanceRequest, GetBlockHeadersRequest, GetCurrentFeePercentilesRequest,
    GetUtxosRequest, Network, SendTransactionRequest, UtxosFilterInRequest,
};
use serde_bytes::ByteBuf;
use serde_json::json;
use std::future::Future;
use std::task::{Context, Poll, Waker};

#[derive(Clone, Copy, Debug, PartialEq, Eq)]
enum Ep {
    Utxos,
    UtxosQuery,
    Balance,
    BalanceQuery,
    Headers,
    Fees,
    SendTx,
}

#[derive(Clone, Copy, Debug, PartialEq, Eq)]
enum Req {
    Success,
    /// a request-level error (malformed address / too-large c / unknown page tip /
    /// bad range / malformed transaction)
    Error(u8),
}

fn fee_tables() -> Vec<(String, Fees)> {
    let mut v = vec![
        ("mainnet".to_string(), Fees::mainnet()),
        ("testnet".to_string(), Fees::testnet()),
        ("default".to_string(), Fees::default()),
    ];
    // every field with its own value (in two different orders of magnitude per endpoint), so
    // that a field read from another endpoint's entry shows
    v.push((
        "distinct-per-field A".to_string(),
        Fees {
            get_utxos_base: 101,
            get_utxos_cycles_per_ten_instructions: 3,
            get_utxos_maximum: 10_007,
            get_balance: 211,
            get_balance_maximum: 251,
            get_current_fee_percentiles: 307,
            get_current_fee_percentiles_maximum: 409,
            send_transaction_base: 503,
            send_transaction_per_byte: 7,
            get_block_headers_base: 601,
            get_block_headers_cycles_per_ten_instructions: 5,
            get_block_headers_maximum: 20_011,
        },
    ));
    v.push((
        "distinct-per-field B".to_string(),
        Fees {
            get_utxos_base: 9_001,
            get_utxos_cycles_per_ten_instructions: 11,
            get_utxos_maximum: 9_901,
            get_balance: 5_003,
            get_balance_maximum: 6_007,
            get_current_fee_percentiles: 71,
            get_current_fee_percentiles_maximum: 97,
            send_transaction_base: 13,
            send_transaction_per_byte: 1_009,
            get_block_headers_base: 17,
            get_block_headers_cycles_per_ten_instructions: 2,
            get_block_headers_maximum: 131,
        },
    ));
    for base in [0u128, 1, 50_000_000] {
        for rate in [0u128, 1, 10] {
            for extra in [0u128, 1, 1_000, 10_000_000_000] {
                for flat in [0u128, 1, 10_000_000] {
                    // keep the product small: flat fees vary with the first dimension only
                    if flat != [0u128, 1, 10_000_000][(base % 3) as usize] && !(base == 0 && rate == 0 && extra == 0) {
                        continue;
                    }
                    v.push((
                        format!("base={} rate={} max-base={} flat={}", base, rate, extra, flat),
                        Fees {
                            get_utxos_base: base,
                            get_utxos_cycles_per_ten_instructions: rate,
                            get_utxos_maximum: base + extra,
                            get_balance: flat,
                            get_balance_maximum: flat + extra,
                            get_current_fee_percentiles: flat,
                            get_current_fee_percentiles_maximum: flat + extra,
                            send_transaction_base: base,
                            send_transaction_per_byte: rate,
                            get_block_headers_base: base,
                            get_block_headers_cycles_per_ten_instructions: rate,
                            get_block_headers_maximum: base + extra,
                        },
                    ));
                }
            }
        }
    }
    v
}

fn valid_tx(len_hint: usize) -> Vec<u8> {
    // a well-formed transaction padded through its script to about `len_hint` bytes
    use bitcoin::absolute::LockTime;
    use bitcoin::transaction::Version;
    let script_len = len_hint.saturating_sub(60);
    let tx = bitcoin::Transaction {
        version: Version(2),
        lock_time: LockTime::ZERO,
        input: vec![bitcoin::TxIn {
            previous_output: bitcoin::OutPoint::null(),
            script_sig: bitcoin::ScriptBuf::from_bytes(vec![0x51; script_len]),
            sequence: bitcoin::Sequence(0),
            witness: bitcoin::Witness::new(),
        }],
        output: vec![bitcoin::TxOut {
            value: bitcoin::Amount::from_sat(1),
            script_pubkey: p2pkh(1),
        }],
    };
    bitcoin::consensus::serialize(&tx)
}

/// Runs one call; returns Ok(true) if it returned Ok, Ok(false) if a request-level error,
/// Err(refusal) if it trapped.
fn call(w: &World, ep: Ep, req: Req, payload_len: usize) -> Result<bool, Refusal> {
    let n = net_req(w.net());
    let good = w.book.text(A).to_string();
    let r: Result<bool, String> = match ep {
        Ep::Utxos | Ep::UtxosQuery => {
            let (address, filter) = match req {
                Req::Success => (good, None),
                Req::Error(0) => ("garbage".to_string(), None),
                Req::Error(1) => (good, Some(UtxosFilterInRequest::MinConfirmations(1_000_000))),
                _ => (good, Some(UtxosFilterInRequest::Page(ByteBuf::from(vec![9u8; 72])))),
            };
            let rq = GetUtxosRequest { address, network: n, filter };
            guarded(|| {
                if ep == Ep::Utxos {
                    ic_btc_canister::get_utxos(rq).is_ok()
                } else {
                    ic_btc_canister::get_utxos_query(rq).is_ok()
                }
            })
        }
        Ep::Balance | Ep::BalanceQuery => {
            let (address, c) = match req {
                Req::Success => (good, None),
                Req::Error(0) => ("garbage".to_string(), None),
                _ => (good, Some(1_000_000)),
            };
            let rq = GetBalanceRequest { address, network: n, min_confirmations: c };
            guarded(|| {
                if ep == Ep::Balance {
                    ic_btc_canister::get_balance(rq).is_ok()
                } else {
                    ic_btc_canister::get_balance_query(rq).is_ok()
                }
            })
        }
        Ep::Headers => {
            let (s, e) = match req {
                Req::Success => (0, None),
                Req::Error(0) => (1_000_000, None),
                Req::Error(1) => (1, Some(0)),
                _ => (0, Some(1_000_000)),
            };
            let rq = GetBlockHeadersRequest { start_height: s, end_height: e, network: n };
            guarded(|| ic_btc_canister::get_block_headers(rq).is_ok())
        }
        Ep::Fees => guarded(|| {
            let _ = ic_btc_canister::get_current_fee_percentiles(GetCurrentFeePercentilesRequest { network: n });
            true
        }),
        Ep::SendTx => {
            let tx = match req {
                Req::Success => valid_tx(payload_len),
                _ => vec![0xabu8; payload_len],
            };
            guarded(|| {
                let mut fut = Box::pin(ic_btc_canister::send_transaction(SendTransactionRequest { transaction: tx, network: n }));
                let mut cx = Context::from_waker(Waker::noop());
                match fut.as_mut().poll(&mut cx) {
                    Poll::Ready(r) => r.is_ok(),
                    Poll::Pending => panic!("pending"),
                }
            })
        }
    };
    r.map_err(|p| classify_refusal(&p))
}

pub fn run(tier: &str) -> i32 {
    let mut rep = Report::new("C16", tier, "exploration");
    let quick = tier == "quick";
    let tables = fee_tables();
    let counters: Vec<u64> = vec![0, 9, 10, 11, 99, 1_000, 1_000_000_000, 40_000_000_000];
    let payload_lens: Vec<usize> = if quick { vec![0, 1, 60, 1000] } else { vec![0, 1, 60, 1000, 100_000] };
    let mut out = Out::default();
    let mut distinct = std::collections::HashSet::new();
    for net in [Network::Regtest, Network::Mainnet, Network::Testnet] {
        for (tname, fees) in &tables {
            let mut cfg = WorldCfg::on(net, 2);
            cfg.fees = Some(fees.clone());
            let w = World::new(cfg);
            for ins in &counters {
                for ep in [Ep::Utxos, Ep::UtxosQuery, Ep::Balance, Ep::BalanceQuery, Ep::Headers, Ep::Fees, Ep::SendTx] {
                    let reqs: Vec<Req> = match ep {
                        Ep::Utxos | Ep::UtxosQuery => vec![Req::Success, Req::Error(0), Req::Error(1), Req::Error(2)],
                        Ep::Balance | Ep::BalanceQuery => vec![Req::Success, Req::Error(0), Req::Error(1)],
                        Ep::Headers => vec![Req::Success, Req::Error(0), Req::Error(1), Req::Error(2)],
                        Ep::Fees => vec![Req::Success],
                        Ep::SendTx => vec![Req::Success, Req::Error(0)],
                    };
                    let lens: Vec<usize> = if ep == Ep::SendTx { payload_lens.clone() } else { vec![0] };
                    for req in &reqs {
                        for len in &lens {
                            // the endpoint's maximum (what a call must carry)
                            let actual_len = if ep == Ep::SendTx {
                                match req {
                                    Req::Success => valid_tx(*len).len(),
                                    _ => *len,
                                }
                            } else {
                                0
                            };
                            let maximum: u128 = match ep {
                                Ep::Utxos => fees.get_utxos_maximum,
                                Ep::Balance => fees.get_balance_maximum,
                                Ep::Headers => fees.get_block_headers_maximum,
                                Ep::Fees => fees.get_current_fee_percentiles_maximum,
                                Ep::SendTx => fees.send_transaction_base + fees.send_transaction_per_byte * actual_len as u128,
                                Ep::UtxosQuery | Ep::BalanceQuery => 0,
                            };
                            let mut avails: Vec<u128> = vec![0, maximum, maximum + 1, 1u128 << 127];
                            if maximum > 0 {
                                avails.push(maximum - 1);
                            }
                            avails.sort();
                            avails.dedup();
                            for avail in avails {
                                rt::set_cycles_available(Some(avail));
                                rt::set_cycles_balance(0);
                                rt::set_performance_counter(*ins);
                                rt::set_performance_counter_step(0);
                                let r = call(&w, ep, *req, *len);
                                let accepted = rt::cycles_balance();
                                out.states += 1;
                                distinct.insert(fp64(format!("{:?}{:?}{}{}{}{}", ep, req, tname, ins, len, avail).as_bytes()));
                                out.set_history(json!({"network": net.to_string(), "fees": tname, "endpoint": format!("{:?}", ep),
                                    "request": format!("{:?}", req), "instruction_counter": ins, "payload_len": actual_len,
                                    "cycles_available": avail.to_string()}));
                                let is_query = matches!(ep, Ep::UtxosQuery | Ep::BalanceQuery);
                                if is_query {
                                    if accepted != 0 {
                                        out.violation("query-charged", None, json!({"accepted": accepted.to_string()}));
                                    } else {
                                        out.count("query_calls_free");
                                    }
                                    continue;
                                }
                                if avail < maximum {
                                    // must be refused before anything is charged
                                    match &r {
                                        Err(Refusal::NotEnoughCycles) if accepted == 0 => out.count("refusals_below_maximum"),
                                        _ => out.violation(
                                            "underfunded-call-not-refused-cleanly",
                                            None,
                                            json!({"result": format!("{:?}", r), "accepted": accepted.to_string(), "maximum": maximum.to_string()}),
                                        ),
                                    }
                                    continue;
                                }
                                let ok = match &r {
                                    Ok(b) => *b,
                                    Err(x) => {
                                        out.violation("funded-call-trapped", None, json!({"refusal": x, "maximum": maximum.to_string()}));
                                        continue;
                                    }
                                };
                                let ins128 = (*ins / 10) as u128;
                                let expected: (u128, u128) = match ep {
                                    Ep::Utxos => {
                                        if ok {
                                            let e = fees.get_utxos_base
                                                + (ins128 * fees.get_utxos_cycles_per_ten_instructions).min(fees.get_utxos_maximum - fees.get_utxos_base);
                                            (e, e)
                                        } else {
                                            (fees.get_utxos_base, fees.get_utxos_base)
                                        }
                                    }
                                    Ep::Headers => {
                                        if ok {
                                            let e = fees.get_block_headers_base
                                                + (ins128 * fees.get_block_headers_cycles_per_ten_instructions)
                                                    .min(fees.get_block_headers_maximum - fees.get_block_headers_base);
                                            (e, e)
                                        } else {
                                            (fees.get_block_headers_base, fees.get_block_headers_base)
                                        }
                                    }
                                    Ep::Balance => (fees.get_balance, fees.get_balance),
                                    Ep::Fees => (fees.get_current_fee_percentiles, fees.get_current_fee_percentiles),
                                    Ep::SendTx => {
                                        let full = fees.send_transaction_base + fees.send_transaction_per_byte * actual_len as u128;
                                        if ok {
                                            (full, full)
                                        } else {
                                            // statement and formula coincide only if the per-byte
                                            // part counts as "base": anything in between is accepted
                                            (fees.send_transaction_base, full)
                                        }
                                    }
                                    _ => (0, 0),
                                };
                                if accepted < expected.0 || accepted > expected.1 {
                                    out.violation(
                                        "charged-amount",
                                        None,
                                        json!({"success": ok, "accepted": accepted.to_string(), "expected_min": expected.0.to_string(),
                                               "expected_max": expected.1.to_string()}),
                                    );
                                } else {
                                    out.count(if ok { "success_charges_checked" } else { "error_charges_checked" });
                                    if accepted == maximum && ok && matches!(ep, Ep::Utxos | Ep::Headers) && maximum > 0 {
                                        out.count("charges_capped_at_maximum");
                                    }
                                }
                                if accepted > maximum {
                                    out.violation("charged-more-than-maximum", None, json!({"accepted": accepted.to_string(), "maximum": maximum.to_string()}));
                                }
                            }
                        }
                    }
                }
            }
        }
    }
    rt::set_cycles_available(None);
    // client side: what ic-cdk-bitcoin-canister attaches covers the default maximum
    for (net, lower) in [(Network::Mainnet, false), (Network::Testnet, false), (Network::Regtest, false), (Network::Mainnet, true), (Network::Testnet, true), (Network::Regtest, true)] {
        let fees = match net {
            Network::Mainnet => Fees::mainnet(),
            Network::Testnet => Fees::testnet(),
            Network::Regtest => Fees::default(),
        };
        // both spellings of the request-side network type
        let n = crate::world::net_req_spelled(net, lower);
        let checks: Vec<(&str, u128, u128)> = vec![
            ("get_utxos", ic_cdk_bitcoin_canister::cost_get_utxos(&GetUtxosRequest { address: "a".into(), network: n, filter: None }), fees.get_utxos_maximum),
            ("get_balance", ic_cdk_bitcoin_canister::cost_get_balance(&GetBalanceRequest { address: "a".into(), network: n, min_confirmations: None }), fees.get_balance_maximum),
            ("get_current_fee_percentiles", ic_cdk_bitcoin_canister::cost_get_current_fee_percentiles(&GetCurrentFeePercentilesRequest { network: n }), fees.get_current_fee_percentiles_maximum),
            ("get_block_headers", ic_cdk_bitcoin_canister::cost_get_block_headers(&GetBlockHeadersRequest { start_height: 0, end_height: None, network: n }), fees.get_block_headers_maximum),
        ];
        for (name, attached, need) in checks {
            out.states += 1;
            out.set_history(json!({"client": name, "network": net.to_string(), "lower_case_spelling": lower}));
            if attached < need {
                out.violation("client-attaches-too-little", None, json!({"attached": attached.to_string(), "needed": need.to_string()}));
            } else {
                out.count("client_costs_checked");
            }
        }
        for len in [0usize, 1, 60, 1000, 100_000] {
            let attached = ic_cdk_bitcoin_canister::cost_send_transaction(&SendTransactionRequest { transaction: vec![0; len], network: n });
            let need = fees.send_transaction_base + fees.send_transaction_per_byte * len as u128;
            out.states += 1;
            out.set_history(json!({"client": "send_transaction", "network": net.to_string(), "lower_case_spelling": lower, "len": len}));
            if attached < need {
                out.violation("client-attaches-too-little", None, json!({"attached": attached.to_string(), "needed": need.to_string()}));
            } else {
                out.count("client_costs_checked");
            }
        }
    }
    out.distinct = distinct;
    out.leaves = 1;
    out.samples.push(json!({"network": "mainnet", "fees": "mainnet", "endpoint": "Utxos", "request": "Success", "instruction_counter": 1000,
        "cycles_available": "10000000000", "expected": "50000000 + min(100*10, 10000000000-50000000)"}));
    rep.out.merge(out);
    rep.evaluations = rep.out.states;
    rep.rule = "fee tables {mainnet, testnet, default} U two tables with a distinct value in every field U product base x rate x (maximum - base) x flat (maximum >= base) x instruction counter {0,9,10,11,99,10^3,10^9,4*10^10} x endpoint (5 update + 2 query) x one success and every request-level error x payload lengths x available cycles {0, max-1, max, max+1, 2^127} on three networks; plus the client-side cost functions of ic-cdk-bitcoin-canister against the default tables (both spellings of every network)".into();
    rep.bounds = json!({"tier": tier, "fee_tables": tables.len()});
    rep.assume("maximum >= base (the statement is undefined below that)");
    rep.assume("for send_transaction errors only base <= charged <= base + per_byte*len is demanded (statement and formula coincide only if the per-byte part counts as base)");
    rep.assume("cycle accounting is the native mock (msg_cycles_available / msg_cycles_accept); the candid layer in main.rs is not executed");
    rep.floor("success_charges_checked", 1000);
    rep.floor("error_charges_checked", 1000);
    rep.floor("refusals_below_maximum", 1000);
    rep.floor("charges_capped_at_maximum", 20);
    rep.floor("query_calls_free", 1000);
    rep.floor("client_costs_checked", 20);
    let _ = factory::REGTEST_BITS;
    rep.finish()
}

//! C08 — time-sliced ingestion is invisible and schedule independent.
use crate::engine::Out;
use crate::factory::{self, *};
use crate::observe::{self, ObsOpts};
use crate::refmodel::H32;
use crate::report::Report;
use crate::util::fp64;
use crate::world::{complete_reply, full_fingerprint, World, WorldCfg};
use ic_btc_canister::runtime::verif_hooks as rt;
use ic_btc_canister::with_state;
use serde_json::{json, Value};
use std::collections::HashMap;

/// A shape: a fully ingested prefix, then a batch delivered without ingestion.
pub struct Shape {
    pub name: &'static str,
    pub theta: u32,
    pub build: fn(&mut Builder),
}

/// Wraps the world while a shape is built. With `drain_after = Some(j)` the ingestion is
/// drained after the j-th batch block: this constructs the state "before the ingestion of
/// the then-anchor began, with the whole batch present", the reference for that block.
pub struct Builder {
    pub w: World,
    in_batch: bool,
    batch_count: usize,
    drain_after: Option<usize>,
}

impl std::ops::Deref for Builder {
    type Target = World;
    fn deref(&self) -> &World {
        &self.w
    }
}

impl Builder {
    fn extend(&mut self, parent: &H32, txs: Vec<bitcoin::Transaction>, diff: u128) -> H32 {
        let h = self.w.extend(parent, txs, diff);
        if self.in_batch {
            self.batch_count += 1;
            if self.drain_after == Some(self.batch_count) {
                drain(&mut self.w);
            }
        }
        h
    }
    /// End of the prefix: everything that can be ingested is ingested.
    fn start_batch(&mut self) {
        drain(&mut self.w);
        self.in_batch = true;
    }
}

fn cb(w: &World, salt: u64, outs: Vec<(u64, usize)>) -> bitcoin::Transaction {
    coinbase_tx(salt, outs.into_iter().map(|(v, a)| (v, w.book.script(a))).collect())
}

/// Extra outputs added to the main block of every shape (thorough tier: more call sites).
static SCALE: std::sync::atomic::AtomicUsize = std::sync::atomic::AtomicUsize::new(0);

/// `outs` plus SCALE further outputs cycling through the book.
fn scaled(outs: Vec<(u64, usize)>) -> Vec<(u64, usize)> {
    let mut v = outs;
    let n = SCALE.load(std::sync::atomic::Ordering::Relaxed);
    for i in 0..n {
        v.push((1000 + i as u64, [A, B, C, D, E, F][i % 6]));
    }
    v
}

fn drain(w: &mut World) {
    loop {
        let r = w.ingest(None).expect("setup ingestion does not trap");
        if r != crate::world::Ingested::Paused {
            break;
        }
    }
}

fn first_out(w: &World, block: &H32) -> (H32, u32) {
    (w.refm.get(block).txs[0].txid, 0)
}

fn s1(w: &mut Builder) {
    let g = w.refm.genesis;
    let p = w.extend(&g, vec![cb(w, 1, vec![(100, A)])], 1);
    w.start_batch();
    let x = w.extend(&p, vec![cb(w, 2, scaled(vec![(10, A), (11, B), (12, C), (13, D), (14, A), (15, E)]))], 1);
    let _y = w.extend(&x, vec![cb(w, 3, vec![(20, A)])], 1);
}

fn s2(w: &mut Builder) {
    let g = w.refm.genesis;
    let p1 = w.extend(&g, vec![cb(w, 1, vec![(100, A)])], 1);
    let p2 = w.extend(&p1, vec![cb(w, 2, vec![(200, A)])], 1);
    let p3 = w.extend(&p2, vec![cb(w, 3, vec![(300, A)])], 1);
    let p4 = w.extend(&p3, vec![cb(w, 4, vec![(5, B)])], 1);
    w.start_batch();
    let t = spend_tx(
        &[first_out(w, &p1), first_out(w, &p2), first_out(w, &p3)],
        vec![(400, w.book.script(F)), (200, w.book.script(A))],
        1,
        0x31,
    );
    let x = w.extend(&p4, vec![cb(w, 5, scaled(vec![(50, E), (51, A)])), t], 1);
    let _y = w.extend(&x, vec![cb(w, 6, vec![(20, A)])], 1);
}

fn s3(w: &mut Builder) {
    let g = w.refm.genesis;
    let p1 = w.extend(&g, vec![cb(w, 1, vec![(100, A)])], 1);
    let p2 = w.extend(&p1, vec![cb(w, 2, vec![(7, B)])], 1);
    w.start_batch();
    let t1 = spend_tx(&[first_out(w, &p1)], vec![(100, w.book.script(C))], 0, 0x41);
    let t2 = spend_tx(&[(txid_of(&t1), 0)], vec![(60, w.book.script(D)), (40, w.book.script(A))], 1, 0x42);
    let x = w.extend(&p2, vec![cb(w, 3, scaled(vec![(50, A), (51, B)])), t1, t2], 1);
    let _y = w.extend(&x, vec![cb(w, 4, vec![(20, B)])], 1);
}

fn s4(w: &mut Builder) {
    let g = w.refm.genesis;
    let p = w.extend(&g, vec![cb(w, 1, vec![(100, A)])], 1);
    w.start_batch();
    let odd = coinbase_tx(
        2,
        vec![
            (0, op_return()),
            (7, bare_script(1)),
            (9, large_script(2)),
            (0, w.book.script(A)),
            (11, medium_script(3)),
            (50, w.book.script(E)),
        ],
    );
    let x = w.extend(&p, vec![odd], 1);
    let _y = w.extend(&x, vec![cb(w, 3, vec![(20, A)])], 1);
}

fn s5(w: &mut Builder) {
    let g = w.refm.genesis;
    let p = w.extend(&g, vec![cb(w, 1, vec![(100, A)])], 1);
    w.start_batch();
    let x = w.extend(
        &p,
        vec![cb(w, 2, scaled(vec![(1, A), (2, B), (3, C), (4, D), (5, E), (6, F), (7, G), (8, COL_SHORT), (9, COL_LONG)]))],
        1,
    );
    let _y = w.extend(&x, vec![cb(w, 3, vec![(20, G)])], 1);
}

/// Several blocks stabilising in the same round, one spending outputs of the previous.
fn s6(w: &mut Builder) {
    let g = w.refm.genesis;
    let p = w.extend(&g, vec![cb(w, 1, vec![(100, A), (101, B)])], 1);
    w.start_batch();
    let x1 = w.extend(&p, vec![cb(w, 2, vec![(10, A), (11, C)])], 1);
    let t = spend_tx(&[first_out(w, &x1)], vec![(10, w.book.script(D))], 0, 0x61);
    let x2 = w.extend(&x1, vec![cb(w, 3, vec![(12, A)]), t], 1);
    let _y = w.extend(&x2, vec![cb(w, 4, vec![(20, A)])], 1);
}

/// theta = 2 and a competing fork that is discarded when the anchor moves.
fn s7(w: &mut Builder) {
    let g = w.refm.genesis;
    let p = w.extend(&g, vec![cb(w, 1, vec![(100, A)])], 1);
    let q = w.extend(&p, vec![cb(w, 2, vec![(5, B)])], 1);
    w.start_batch();
    let t = spend_tx(&[first_out(w, &p)], vec![(70, w.book.script(C)), (30, w.book.script(A))], 2, 0x71);
    let x = w.extend(&q, vec![cb(w, 3, vec![(10, A)]), t], 1);
    let _f = w.extend(&q, vec![cb(w, 4, vec![(10, F)])], 1); // competing sibling of x
    let y = w.extend(&x, vec![cb(w, 5, vec![(20, A)])], 1);
    let z = w.extend(&y, vec![cb(w, 6, vec![(21, A)])], 1);
    let _z2 = w.extend(&z, vec![cb(w, 7, vec![(22, A)])], 1);
}

pub fn shapes() -> Vec<Shape> {
    vec![
        Shape { name: "s1: coinbase with four address outputs", theta: 1, build: s1 },
        Shape { name: "s2: spend of three stable outputs created at different heights", theta: 1, build: s2 },
        Shape { name: "s3: create-and-spend inside the block", theta: 1, build: s3 },
        Shape { name: "s4: op_return / bare / large / zero-value outputs", theta: 1, build: s4 },
        Shape { name: "s5: six addresses", theta: 1, build: s5 },
        Shape { name: "s6: three blocks stabilising in the same round", theta: 1, build: s6 },
        Shape { name: "s7: theta=2, competing fork discarded by the advance", theta: 2, build: s7 },
    ]
}

fn work_pending(w: &World) -> bool {
    w.is_ingesting()
        || with_state(|s| ic_btc_canister::unstable_blocks::peek(&s.unstable_blocks).is_some())
}

fn position(_w: &World) -> Option<(u32, usize, usize, usize)> {
    with_state(|s| {
        s.utxos
            .ingesting_block
            .as_ref()
            .map(|b| (s.utxos.next_height, b.next_tx_idx, b.next_input_idx, b.next_output_idx))
    })
}

/// A block the source could offer next (valid child of the best tip).
fn offer(w: &World) -> Vec<u8> {
    let info = w.info().expect("info");
    let tip: H32 = info.block_hash.clone().try_into().unwrap();
    let b = w.make_block(&tip, vec![coinbase_tx(9999, vec![(1, w.book.script(G))])]);
    factory::block_bytes(&b)
}

struct ShapeRun<'a> {
    shape: &'a Shape,
    /// per height of the ingesting block: answers and tree before its ingestion began
    refs: HashMap<u32, (observe::Obs, Vec<H32>)>,
    unsliced_fp: u128,
    unsliced_obs: observe::Obs,
    pos_fp: HashMap<(u32, usize, usize, usize), u128>,
    opts: ObsOpts,
}

fn setup_staged(shape: &Shape, drain_after: Option<usize>) -> (World, usize) {
    let mut b = Builder {
        w: World::new(WorldCfg::regtest(shape.theta)),
        in_batch: false,
        batch_count: 0,
        drain_after,
    };
    (shape.build)(&mut b);
    (b.w, b.batch_count)
}

fn setup(shape: &Shape) -> World {
    setup_staged(shape, None).0
}

/// Runs one budget sequence; returns number of rounds used.
fn run_sequence(sr: &mut ShapeRun, budgets: &[u64], out: &mut Out) -> usize {
    let mut w = setup(sr.shape);
    let reply_block = offer(&w);
    let mut rounds = 0usize;
    let hist = |r: usize| json!({"shape": sr.shape.name, "budgets": budgets, "after_round": r});
    loop {
        if !work_pending(&w) {
            break;
        }
        let b = budgets.get(rounds).copied();
        let Some(b) = b else {
            out.set_history(hist(rounds));
            out.violation(
                "not-finished-within-m-rounds",
                None,
                json!({"rounds": rounds, "note": "budgets sum to the number of slicing call sites but work is still pending"}),
            );
            break;
        };
        let _ = rt::take_successors_requests();
        let r = w.heartbeat_with(Some(complete_reply(vec![reply_block.clone()], vec![])), Some(b));
        rounds += 1;
        out.transitions += 1;
        out.set_history(hist(rounds));
        if let Err(p) = r {
            out.violation("heartbeat-trap", None, json!({"panic": p}));
            return rounds;
        }
        let reqs = rt::take_successors_requests();
        if !reqs.is_empty() {
            out.violation(
                "fetched-during-ingestion",
                None,
                json!({"requests": reqs.len(), "note": "a heartbeat that ingested (paused or finished) must not fetch"}),
            );
        }
        if with_state(|s| s.syncing_state.response_to_process.is_some()) {
            out.violation("response-stored-during-ingestion", None, json!({}));
        }
        if w.is_ingesting() {
            out.states += 1;
            out.count("pauses");
            let pos = position(&w).unwrap();
            if !sr.refs.contains_key(&pos.0) {
                // No reachable state has this block as a not-yet-started anchor with the
                // whole batch present (it becomes ingestible only together with its
                // parent): all pauses of the block are compared with its first pause.
                sr.refs.insert(pos.0, (observe::observe(&w, &sr.opts), w.tree_hashes()));
                out.count("blocks_compared_with_their_first_pause_only");
            }
            let (s0, tree0) = sr.refs.get(&pos.0).unwrap();
            let n_inputs = with_state(|s| {
                let b = s.utxos.ingesting_block.as_ref().unwrap();
                let tx = &b.block.txdata()[b.next_tx_idx];
                if tx.is_coinbase() { 0 } else { tx.input().len() }
            });
            if pos.3 > 0 {
                out.count("pauses_inside_output_loop");
            } else if pos.2 > 0 && pos.2 < n_inputs {
                out.count("pauses_inside_input_loop");
            } else if pos.2 >= n_inputs && n_inputs > 0 {
                out.count("pauses_between_inputs_and_outputs");
            } else {
                out.count("pauses_between_transactions_or_blocks");
            }
            let fp = full_fingerprint_paused();
            match sr.pos_fp.get(&pos) {
                Some(prev) if *prev == fp => {
                    out.count("pause_states_equal_to_earlier_schedule");
                }
                Some(_) => {
                    out.violation(
                        "schedule-dependent-pause-state",
                        None,
                        json!({"position": format!("{:?}", pos), "note": "the same pause position reached by two budget sequences has different states"}),
                    );
                }
                None => {
                    sr.pos_fp.insert(pos, fp);
                    out.distinct.insert(fp as u64);
                    if w.tree_hashes() != *tree0 {
                        out.violation(
                            "tree-changed-during-ingestion",
                            None,
                            json!({"position": format!("{:?}", pos)}),
                        );
                    }
                    // the first time this pause position is seen: all probes vs the
                    // answers before this block's ingestion began
                    let now = observe::observe(&w, &sr.opts);
                    let d = observe::diff(s0, &now);
                    out.add("probes_compared_at_pauses", now.len() as u64);
                    if !d.is_empty() {
                        let only_len = d.iter().all(|k| k == "info.utxos_length");
                        out.violation(
                            "answer-changed-at-pause",
                            if only_len { Some("F8") } else { None },
                            json!({"position": format!("{:?}", pos), "differing_probes": d.iter().take(8).collect::<Vec<_>>(),
                                   "n_differing": d.len(),
                                   "before": d.first().and_then(|k| s0.get(k)), "at_pause": d.first().and_then(|k| now.get(k))}),
                        );
                    }
                }
            }
        }
    }
    out.leaves += 1;
    out.set_history(hist(rounds));
    // final state equals the unsliced run
    let fp = full_fingerprint();
    out.outcomes.insert(fp as u64);
    if fp != sr.unsliced_fp {
        out.violation(
            "final-state-differs-from-unsliced-run",
            None,
            json!({"rounds": rounds}),
        );
    }
    rounds
}

/// An upgrade at every pause position (budget 1 per round up to the k-th pause, then
/// pre_upgrade / post_upgrade): the answers at the pause are the same before and after the
/// upgrade, ingestion then runs to completion, and the final answers equal those of the
/// unsliced run.
fn upgrade_at_pauses(sr: &ShapeRun, m: usize, out: &mut Out) {
    for k in 1..m {
        let mut w = setup(sr.shape);
        let reply_block = offer(&w);
        let hist = |stage: &str| json!({"shape": sr.shape.name, "budgets": vec![1u64; k], "then": "upgrade", "stage": stage});
        let mut ok = true;
        for _ in 0..k {
            if !work_pending(&w) {
                break;
            }
            if let Err(p) = w.heartbeat_with(Some(complete_reply(vec![reply_block.clone()], vec![])), Some(1)) {
                out.set_history(hist("before the upgrade"));
                out.violation("heartbeat-trap", None, json!({"panic": p}));
                ok = false;
                break;
            }
        }
        if !ok || !w.is_ingesting() {
            continue;
        }
        out.transitions += 1;
        let before = observe::observe(&w, &sr.opts);
        if let Err(p) = w.upgrade(None) {
            out.set_history(hist("upgrade"));
            out.violation("upgrade-trap-at-pause", None, json!({"panic": p}));
            continue;
        }
        out.count("upgrades_at_a_pause");
        let after = observe::observe(&w, &sr.opts);
        let d = observe::diff(&before, &after);
        if !d.is_empty() {
            let only_len = d.iter().all(|x| x == "info.utxos_length");
            out.set_history(hist("right after the upgrade"));
            out.violation(
                "answer-changed-by-upgrade-at-pause",
                if only_len { Some("F6") } else { None },
                json!({"differing_probes": d.iter().take(8).collect::<Vec<_>>(), "n_differing": d.len(),
                       "before": d.first().and_then(|x| before.get(x)), "after": d.first().and_then(|x| after.get(x))}),
            );
        }
        // ingestion resumes and completes
        let mut rounds = 0;
        while work_pending(&w) && rounds < 8 {
            if let Err(p) = w.heartbeat_with(Some(complete_reply(vec![reply_block.clone()], vec![])), None) {
                out.set_history(hist("resuming after the upgrade"));
                out.violation("heartbeat-trap-after-upgrade-at-pause", None, json!({"panic": p}));
                ok = false;
                break;
            }
            rounds += 1;
        }
        if !ok {
            continue;
        }
        if work_pending(&w) {
            out.set_history(hist("resuming after the upgrade"));
            out.violation("not-finished-after-upgrade-at-pause", None, json!({"rounds": rounds}));
            continue;
        }
        let fin = observe::observe(&w, &sr.opts);
        let d = observe::diff(&sr.unsliced_obs, &fin);
        if !d.is_empty() {
            let only_len = d.iter().all(|x| x == "info.utxos_length");
            out.set_history(hist("after completion"));
            out.violation(
                "final-answers-differ-from-unsliced-run-after-upgrade-at-pause",
                if only_len { Some("F6") } else { None },
                json!({"differing_probes": d.iter().take(8).collect::<Vec<_>>(), "n_differing": d.len(),
                       "unsliced": d.first().and_then(|x| sr.unsliced_obs.get(x)), "this_run": d.first().and_then(|x| fin.get(x))}),
            );
        } else {
            out.count("upgrade_at_pause_runs_completed_with_identical_answers");
        }
    }
}

/// The controller switches syncing off at every pause position: that flag only stops the
/// fetching of new blocks, the ingestion in progress still finishes in finitely many rounds
/// and the final answers equal those of the unsliced run.
fn syncing_off_at_pauses(sr: &ShapeRun, m: usize, out: &mut Out) {
    use ic_btc_interface::{Flag, SetConfigRequest};
    for k in 1..m {
        let mut w = setup(sr.shape);
        let reply_block = offer(&w);
        let hist = |stage: &str| json!({"shape": sr.shape.name, "budgets": vec![1u64; k], "then": "set_config(syncing = disabled)", "stage": stage});
        let mut ok = true;
        for _ in 0..k {
            if !work_pending(&w) {
                break;
            }
            if w.heartbeat_with(Some(complete_reply(vec![reply_block.clone()], vec![])), Some(1)).is_err() {
                ok = false;
                break;
            }
        }
        if !ok || !w.is_ingesting() {
            continue;
        }
        out.transitions += 1;
        if let Err(p) = w.set_config(SetConfigRequest { syncing: Some(Flag::Disabled), ..Default::default() }) {
            out.set_history(hist("set_config"));
            out.violation("set-config-trap-at-pause", None, json!({"panic": p}));
            continue;
        }
        out.count("syncing_switched_off_at_a_pause");
        let mut rounds = 0;
        while work_pending(&w) && rounds < 8 {
            let _ = rt::take_successors_requests();
            if let Err(p) = w.heartbeat_with(Some(complete_reply(vec![reply_block.clone()], vec![])), None) {
                out.set_history(hist("resuming with syncing off"));
                out.violation("heartbeat-trap-with-syncing-off-at-pause", None, json!({"panic": p}));
                ok = false;
                break;
            }
            if !rt::take_successors_requests().is_empty() {
                out.set_history(hist("resuming with syncing off"));
                out.violation("fetched-with-syncing-off", None, json!({}));
            }
            rounds += 1;
        }
        if !ok {
            continue;
        }
        if work_pending(&w) {
            out.set_history(hist("resuming with syncing off"));
            out.violation("ingestion-stalls-with-syncing-off", None, json!({"rounds": rounds, "still_ingesting": w.is_ingesting()}));
            continue;
        }
        let _ = w.set_config(SetConfigRequest { syncing: Some(Flag::Enabled), ..Default::default() });
        let fin = observe::observe(&w, &sr.opts);
        let d = observe::diff(&sr.unsliced_obs, &fin);
        if !d.is_empty() {
            out.set_history(hist("after completion"));
            out.violation(
                "final-answers-differ-from-unsliced-run-after-syncing-off-at-pause",
                None,
                json!({"differing_probes": d.iter().take(8).collect::<Vec<_>>(), "n_differing": d.len()}),
            );
        } else {
            out.count("syncing_off_at_pause_runs_completed_with_identical_answers");
        }
    }
}

/// A round whose budget is used up before a single input or output can be applied (budget 0)
/// at every pause position: the block is still being ingested, so the round neither fetches
/// nor processes anything and leaves the state as it was; ingestion then completes.
fn zero_budget_at_pauses(sr: &ShapeRun, m: usize, out: &mut Out) {
    for k in 1..m {
        let mut w = setup(sr.shape);
        let reply_block = offer(&w);
        let hist = |stage: &str| json!({"shape": sr.shape.name, "budgets": vec![1u64; k], "then": "two rounds with budget 0", "stage": stage});
        let mut ok = true;
        for _ in 0..k {
            if !work_pending(&w) {
                break;
            }
            if w.heartbeat_with(Some(complete_reply(vec![reply_block.clone()], vec![])), Some(1)).is_err() {
                ok = false;
                break;
            }
        }
        if !ok || !w.is_ingesting() {
            continue;
        }
        let pos0 = position(&w);
        let fp0 = full_fingerprint_paused();
        let tree0 = w.tree_hashes();
        for round in 0..2 {
            let _ = rt::take_successors_requests();
            out.transitions += 1;
            if let Err(p) = w.heartbeat_with(Some(complete_reply(vec![reply_block.clone()], vec![])), Some(0)) {
                out.set_history(hist("zero-budget round"));
                out.violation("heartbeat-trap-in-a-round-without-progress", None, json!({"panic": p, "round": round}));
                ok = false;
                break;
            }
            let fetched = rt::take_successors_requests().len();
            let stored = with_state(|s| s.syncing_state.response_to_process.is_some());
            if fetched > 0 || stored || w.tree_hashes() != tree0 {
                out.set_history(hist("zero-budget round"));
                out.violation(
                    "fetched-or-processed-during-ingestion",
                    None,
                    json!({"round": round, "requests_sent": fetched, "response_stored": stored, "tree_changed": w.tree_hashes() != tree0}),
                );
                ok = false;
                break;
            }
            if !w.is_ingesting() || position(&w) != pos0 || full_fingerprint_paused() != fp0 {
                // progress with budget 0 is possible only if the harness's budget does not mean
                // what it should
                out.set_history(hist("zero-budget round"));
                out.violation("machinery:progress-with-budget-zero", None, json!({"round": round}));
                ok = false;
                break;
            }
            out.count("rounds_without_progress_at_a_pause");
        }
        if !ok {
            continue;
        }
        let mut rounds = 0;
        while work_pending(&w) && rounds < 8 {
            if w.heartbeat_with(Some(complete_reply(vec![reply_block.clone()], vec![])), None).is_err() {
                ok = false;
                break;
            }
            rounds += 1;
        }
        if !ok || work_pending(&w) {
            out.set_history(hist("resuming"));
            out.violation("not-finished-after-rounds-without-progress", None, json!({"rounds": rounds}));
            continue;
        }
        let fin = observe::observe(&w, &sr.opts);
        let d = observe::diff(&sr.unsliced_obs, &fin);
        if !d.is_empty() {
            out.set_history(hist("after completion"));
            out.violation("final-answers-differ-from-unsliced-run-after-rounds-without-progress", None, json!({"differing_probes": d.iter().take(8).collect::<Vec<_>>()}));
        }
    }
}

/// Fingerprint of a paused state with the per-round statistics masked.
fn full_fingerprint_paused() -> u128 {
    full_fingerprint()
}

fn compositions(m: usize, f: &mut dyn FnMut(&[u64])) {
    fn rec(rem: usize, cur: &mut Vec<u64>, f: &mut dyn FnMut(&[u64])) {
        if rem == 0 {
            f(cur);
            return;
        }
        for b in 1..=rem {
            cur.push(b as u64);
            rec(rem - b, cur, f);
            cur.pop();
        }
    }
    rec(m, &mut vec![], f);
}

fn run_shape(shape: &Shape, max_m: usize, rep_out: &mut Out) -> Value {
    let mut out = Out::default();
    let opts = ObsOpts::default();
    // reference answers per ingesting block: the state in which the blocks below it are
    // already ingested and the whole batch is present, but its own ingestion has not begun
    let (_, nbatch) = setup_staged(shape, None);
    let mut refs: HashMap<u32, (observe::Obs, Vec<H32>)> = HashMap::new();
    for j in (0..=nbatch).rev() {
        let (w, _) = setup_staged(shape, if j == 0 { None } else { Some(j) });
        if work_pending(&w) || j == 0 {
            refs.entry(w.stable_height())
                .or_insert_with(|| (observe::observe(&w, &opts), w.tree_hashes()));
        }
    }
    let mut wu = setup(shape);
    let reply_block = offer(&wu);
    let _ = wu.heartbeat_with(Some(complete_reply(vec![reply_block], vec![])), None);
    if work_pending(&wu) {
        out.violation("machinery:unsliced-run-incomplete", None, json!({"shape": shape.name}));
    }
    let unsliced_fp = full_fingerprint();
    let unsliced_obs = observe::observe(&wu, &opts);
    let mut sr = ShapeRun {
        shape,
        refs,
        unsliced_fp,
        unsliced_obs,
        pos_fp: HashMap::new(),
        opts,
    };
    // m = number of rounds with budget 1
    let ones = vec![1u64; 200];
    let mut probe_out = Out::default();
    let m = run_sequence(&mut sr, &ones, &mut probe_out);
    sr.pos_fp.clear();
    let mut n = 0u64;
    if m > max_m {
        out.violation("machinery:shape-too-large", None, json!({"shape": shape.name, "m": m, "max": max_m}));
    } else {
        compositions(m, &mut |b| {
            n += 1;
            let used = run_sequence(&mut sr, b, &mut out);
            if used > m {
                out.violation("more-rounds-than-call-sites", None, json!({"used": used, "m": m}));
            }
        });
    }
    if m <= max_m {
        upgrade_at_pauses(&sr, m, &mut out);
        syncing_off_at_pauses(&sr, m, &mut out);
        zero_budget_at_pauses(&sr, m, &mut out);
    }
    out.add("budget_sequences", n);
    out.add("distinct_pause_positions", sr.pos_fp.len() as u64);
    if out.samples.is_empty() {
        out.samples.push(json!({"shape": shape.name, "slicing_call_sites_m": m, "budget_sequences": n,
            "distinct_pause_positions": sr.pos_fp.len(), "blocks_ingested_in_the_sliced_phase": sr.refs.len(),
            "example_sequence": [1, m.saturating_sub(1)]}));
    }
    let summary = json!({"shape": shape.name, "theta": shape.theta, "m": m, "budget_sequences": n,
        "pause_positions": sr.pos_fp.len()});
    rep_out.merge(out);
    summary
}

pub fn run(tier: &str) -> i32 {
    let mut rep = Report::new("C08", tier, "model_checking");
    let quick = tier == "quick";
    let max_m = if quick { 14 } else { 18 };
    SCALE.store(if quick { 3 } else { 7 }, std::sync::atomic::Ordering::Relaxed);
    let shapes = shapes();
    let results: Vec<(Out, Value)> = std::thread::scope(|sc| {
        let hs: Vec<_> = shapes
            .iter()
            .map(|s| {
                sc.spawn(move || {
                    let mut o = Out::default();
                    let v = run_shape(s, max_m, &mut o);
                    (o, v)
                })
            })
            .collect();
        hs.into_iter().map(|h| h.join().expect("shape worker")).collect()
    });
    for (o, v) in results {
        rep.out.merge(o);
        rep.parts.push(v);
    }
    rep.rule = "for each block shape, all compositions of the m slicing call sites into per-round budgets >= 1 (2^(m-1) schedules), each driven through the real heartbeat() with a source that always offers a further valid block; at the first visit of every pause position the complete probe set is compared with the answers before ingestion began, later visits must reach the identical state; the final state must equal the unsliced run; plus an upgrade at every pause position (answers unchanged by it, ingestion completes, final answers equal the unsliced run) and set_config(syncing = disabled) at every pause position (ingestion still completes without fetching, same final answers), and two rounds with budget 0 at every pause position (no fetch, no processing, state unchanged)".into();
    rep.bounds = json!({"tier": tier, "max_call_sites": max_m, "shapes": shapes.len()});
    rep.assume("budgets are expressed in slicing call sites (one per input and per output), the only points where the code can pause");
    rep.assume("block_ingestion_stats and histograms are masked in fingerprints: they legitimately record the number of rounds");
    rep.floor("upgrades_at_a_pause", 30);
    rep.floor("syncing_switched_off_at_a_pause", 30);
    rep.floor("rounds_without_progress_at_a_pause", 60);
    rep.floor("pauses_inside_input_loop", 10);
    rep.floor("pauses_between_inputs_and_outputs", 10);
    rep.floor("pauses_inside_output_loop", 100);
    rep.floor("pauses_between_transactions_or_blocks", 100);
    rep.floor("budget_sequences", 1000);
    rep.floor("probes_compared_at_pauses", 1000);
    rep.floor("pause_states_equal_to_earlier_schedule", 1000);
    let _ = fp64;
    rep.finish()
}

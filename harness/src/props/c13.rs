//! C13 — block fetching survives any reply sequence and interleaving.
use crate::engine::{explore, Limits};
use crate::report::Report;
use crate::sched::{Pool, SchedModel};
use ic_btc_interface::Network;
use serde_json::json;

pub fn run(tier: &str) -> i32 {
    let mut rep = Report::new("C13", tier, "model_checking");
    let quick = tier == "quick";
    // (theta, follow_ups, max_deviations, max_depth, hb_budget)
    let parts: Vec<(u32, usize, usize, usize, Option<u64>)> = if quick {
        vec![
            (2, 0, 4, 40, None),
            (2, 1, 4, 40, None),
            (2, 2, 4, 40, None),
            (1, 2, 3, 40, Some(2)),
            (3, 3, 3, 40, None),
        ]
    } else {
        vec![
            (2, 0, 7, 60, None),
            (2, 1, 7, 60, None),
            (2, 2, 6, 60, None),
            (2, 3, 6, 60, None),
            (1, 2, 6, 80, Some(2)),
            (1, 3, 5, 100, Some(1)),
            (3, 2, 6, 60, None),
            (2, 255, 2, 600, None),
        ]
    };
    // (theta, follow_ups, max_deviations, max_depth, hb_budget, pool: 0 standard / 1 wide / 2 tall)
    let parts: Vec<(u32, usize, usize, usize, Option<u64>, u8)> = {
        let mut v: Vec<_> = parts.into_iter().map(|(a, b, c, d, e)| (a, b, c, d, e, 0u8)).collect();
        if quick {
            v.push((2, 1, 3, 60, None, 1));
            v.push((2, 1, 3, 80, None, 2));
            v.push((2, 2, 2, 60, None, 3));
        } else {
            v.push((2, 3, 4, 80, None, 3));
            v.push((1, 2, 4, 80, Some(2), 3));
            v.push((2, 2, 5, 80, None, 1));
            v.push((1, 1, 5, 80, Some(2), 1));
            v.push((3, 0, 6, 80, None, 1));
            v.push((2, 2, 4, 100, None, 2));
            v.push((1, 1, 4, 100, Some(2), 2));
        }
        v
    };
    for (theta, p, dev, depth, budget, pool_kind) in parts {
        let m = SchedModel {
            net: Network::Regtest,
            theta,
            pool: match pool_kind {
                1 => Pool::wide(Network::Regtest, p),
                2 => Pool::tall(Network::Regtest, p, 6),
                3 => {
                    let mut pl = Pool::standard(Network::Regtest, p);
                    pl.empty_page = true;
                    pl
                }
                _ => Pool::standard(Network::Regtest, p),
            },
            max_deviations: dev,
            max_depth: depth,
            hb_budget: budget,
            prop: "C13",
            liveness: p < 100,
            upgrade_transparency: false,
            syncing_toggles: true,
            sync_gate: false,
            gate_toggle: false,
        };
        let e = explore(&m, &Limits::new(3, if quick { 300 } else { 6000 }));
        let pool_desc = ["G-P1-P2-P3 + fork F on P1, P2 paginated, two blocks per reply", "G-A1-A2 and G-B1-B2-B3, B2 paginated, one block per reply", "G-T1-...-T6, T2 paginated, one block and at most three announced headers per reply (each reply announces a header no earlier reply announced)", "as the first, with two coinciding split points: the second page is empty"][pool_kind as usize];
        rep.absorb(
            &format!("SCHED theta={} follow_ups={} deviations<={} depth<={} hb_budget={:?} pool={}", theta, p, dev, depth, budget, ["standard", "wide", "tall", "standard with an empty follow-up page"][pool_kind as usize]),
            e,
            json!({"threshold": theta, "follow_up_pages": p, "max_deviations": dev, "max_depth": depth,
                   "heartbeat_ingestion_budget": budget,
                   "pool": pool_desc}),
        );
    }
    rep.rule = "all schedules of {start a heartbeat, deliver normal/reject/empty reply to a parked heartbeat, upgrade} with at most d deviations from the sequential schedule (a heartbeat while a request is outstanding, a reject, an empty reply, an upgrade, switching syncing off (and on again) each cost one), over a source holding a pool of 4-6 blocks with one block split into 1+p pages (the first page carries the headers of the blocks that do not fit); what is stored after the last page equals what the source sent (block bytes and announced headers), every header announced in a processed reply is pending afterwards; states merged on the complete logical state + parked requests + source cursor + deviations used; from every state a fault-free suffix must sync the pool".into();
    rep.bounds = json!({"tier": tier});
    rep.assume("the source honours its protocol (no complete reply to a follow-up request, no partial reply announcing 0 follow-ups); set_config is not in this alphabet");
    rep.assume("an upgrade leaks outstanding heartbeats: the IC never resumes call contexts of the old instance");
    rep.floor("heartbeats_while_a_request_is_outstanding", 20);
    rep.floor("rejects", 20);
    rep.floor("rejects_between_pages", 5);
    rep.floor("upgrades_with_a_request_outstanding", 5);
    rep.floor("upgrades_with_partial_pages_stored", 2);
    rep.floor("follow_up_requests_in_sequence", 50);
    rep.floor("initial_requests_after_reject_or_upgrade", 20);
    rep.floor("liveness_suffixes_checked", 200);
    rep.floor("syncing_switched_off", 20);
    rep.floor("syncing_switched_off_between_pages", 2);
    rep.floor("reassembled_responses_identical", 50);
    rep.floor("reassembled_responses_with_announced_headers", 10);
    rep.floor("announced_headers_accounted_for_after_processing", 50);
    rep.finish()
}

//! C10 — a block is admitted iff it is new, connected and valid; rejects are atomic.
use crate::chain::{self, Alphabet, Applied, Ev};
use crate::engine::{explore, Limits, Model, Out};
use crate::factory::{self, *};
use crate::props::c20::dump_unstable;
use crate::refmodel::H32;
use crate::report::Report;
use crate::util::short;
use crate::world::{complete_reply, World, WorldCfg};
use bitcoin::hashes::Hash;
use ic_btc_canister::with_state;
use serde::Serialize;
use serde_json::{json, Value};
use std::collections::{HashMap, HashSet};

// ----------------------------------------------------------------- item alphabet

pub const K_CHILD_OF_TIP: u8 = 1;
pub const K_CHILD_OF_FORK: u8 = 2;
pub const K_CHILD_OF_ANCHOR: u8 = 3;
pub const K_DUP_TREE: u8 = 4;
pub const K_ANCHOR_ITSELF: u8 = 5;
pub const K_CHILD_OF_STABLE: u8 = 6;
pub const K_ORPHAN: u8 = 7;
pub const K_EMPTY: u8 = 8;
pub const K_TRUNC_40: u8 = 9;
pub const K_TRUNC_80: u8 = 10;
pub const K_TRUNC_MID_TX: u8 = 11;
pub const K_TRAILING: u8 = 12;
pub const K_BAD_POW: u8 = 13;
pub const K_TIME_OLD: u8 = 14;
pub const K_TIME_FUTURE: u8 = 15;
pub const K_WRONG_BITS: u8 = 16;
pub const K_NO_TX: u8 = 17;
pub const K_NONCOINBASE_FIRST: u8 = 18;
pub const K_BAD_MERKLE: u8 = 19;
pub const K_DUP_TX: u8 = 20;
pub const K_CHILD_OF_PREVIOUS: u8 = 21;
pub const K_TIME_JUST_ABOVE_MEDIAN: u8 = 22;
pub const K_TIME_AT_LIMIT: u8 = 23;
pub const K_ANNOUNCED_BAD_BODY: u8 = 24;
pub const K_ANNOUNCED_GOOD: u8 = 25;
pub const K_CHILD_OF_ANNOUNCED: u8 = 26;
pub const K_TWIN_OF_TREE_BLOCK: u8 = 27;
pub const ALL_ITEMS: [u8; 27] = [1, 21, 22, 23, 25, 24, 26, 27, 2, 3, 4, 5, 6, 7, 8, 9, 10, 11, 12, 13, 14, 15, 16, 17, 18, 19, 20];

pub fn item_name(k: u8) -> &'static str {
    match k {
        1 => "valid child of tip",
        2 => "valid child of a fork block",
        3 => "valid child of the anchor",
        4 => "duplicate of a tree block",
        5 => "the anchor itself",
        6 => "child of a stabilised block",
        7 => "orphan",
        8 => "empty bytes",
        9 => "truncated at 40",
        10 => "truncated at 80",
        11 => "truncated mid-transaction",
        12 => "block + trailing byte",
        13 => "bad proof of work",
        14 => "timestamp <= median",
        15 => "timestamp > now + 2h",
        16 => "wrong bits",
        17 => "no transactions",
        18 => "non-coinbase first",
        19 => "wrong merkle root",
        20 => "duplicated transaction (CVE-2012-2459)",
        21 => "valid child of the previous item",
        22 => "valid: timestamp = median + 1 (older than its parent)",
        23 => "valid: timestamp = now + 2h exactly",
        24 => "announced header with another body (wrong merkle root)",
        25 => "valid: the block of an announced header",
        26 => "valid block whose parent is an announced header (block not yet delivered unless an earlier item is it)",
        27 => "valid: a sibling of a tree block with the same transactions (same merkle root, other timestamp and hash)",
        _ => "?",
    }
}

#[derive(Clone, Debug, PartialEq, Eq)]
pub enum Expect {
    Admit,
    RejectDecode,
    RejectInsert,
    /// the statement does not decide (bytes that decode leniently)
    Either,
}

pub struct Item {
    pub bytes: Vec<u8>,
    pub block: Option<bitcoin::Block>,
    pub valid_by_construction: bool,
    pub decodes: Option<bool>, // None = lenient/undecided
}

pub const H_VALID: u8 = 1;
pub const H_CHAINED: u8 = 2;
pub const H_DUP: u8 = 3;
pub const H_OF_TREE_BLOCK: u8 = 4;
pub const H_UNCONNECTED: u8 = 5;
pub const H_BAD_POW: u8 = 6;
pub const H_79: u8 = 7;
pub const H_81: u8 = 8;
pub const H_EMPTY: u8 = 9;
/// child of the highest announced header the canister still retains (connected to the tree or
/// left over from a discarded fork)
pub const H_ON_RETAINED: u8 = 10;
pub const ALL_HDRS: [u8; 10] = [1, 2, 3, 4, 5, 6, 7, 8, 9, 10];

#[derive(Clone, Debug, Serialize, PartialEq, Eq)]
pub enum XEv {
    Base(Ev),
    /// one get_successors reply: block items and announced headers, by kind
    Resp { items: Vec<u8>, next: Vec<u8> },
}

pub struct C10Model {
    pub cfg: WorldCfg,
    pub base: Alphabet,
    pub item_kinds: Vec<u8>,
    pub max_items: usize,
    pub hdr_kinds: Vec<u8>,
    pub max_hdrs: usize,
    pub max_resps: usize,
}

pub struct XCtx {
    pub w: World,
    pub last: Option<Applied>,
    pub dead: bool,
    pub resps: usize,
}

fn simple_cb(w: &World, salt: u64) -> bitcoin::Transaction {
    coinbase_tx(salt, vec![(50, w.book.script(A))])
}

fn median_time_past(w: &World, parent: &H32) -> u32 {
    let mut times = vec![];
    let mut cur = *parent;
    for _ in 0..11 {
        let b = w.refm.get(&cur);
        times.push(b.time);
        if cur == w.refm.genesis {
            break;
        }
        cur = b.parent;
    }
    times.sort();
    times[times.len() / 2]
}

/// Builds the item of kind `k` at position `pos` of a reply, relative to the current state
/// and to the previous item (for K_CHILD_OF_PREVIOUS). None if not applicable.
fn build_item(w: &World, k: u8, pos: usize, prev: Option<&bitcoin::Block>, resp_no: usize) -> Option<Item> {
    let tree = w.tree_hashes();
    let anchor = tree[0];
    let info = w.info().ok()?;
    let tip: H32 = info.block_hash.clone().try_into().ok()?;
    let salt = 5000 + (resp_no as u64) * 100 + pos as u64 * 10 + k as u64 * 1000;
    let hdr_of = |h: &H32| w.blocks.get(h).map(|b| b.header);
    let good = |parent: &bitcoin::block::Header| {
        factory::regtest_block(parent, parent.time + 600, vec![simple_cb(w, salt)])
    };
    let ok = |b: bitcoin::Block| {
        Some(Item {
            bytes: factory::block_bytes(&b),
            block: Some(b),
            valid_by_construction: true,
            decodes: Some(true),
        })
    };
    let bad = |b: bitcoin::Block| {
        Some(Item {
            bytes: factory::block_bytes(&b),
            block: Some(b),
            valid_by_construction: false,
            decodes: Some(true),
        })
    };
    let raw = |bytes: Vec<u8>| {
        Some(Item {
            bytes,
            block: None,
            valid_by_construction: false,
            decodes: Some(false),
        })
    };
    match k {
        K_CHILD_OF_TIP => ok(good(&hdr_of(&tip)?)),
        K_CHILD_OF_PREVIOUS => {
            let p = prev?.header;
            // a child of a block at the two-hour limit cannot be both later than the median
            // and within the limit on short chains: not offered
            if p.time as u64 + 600 > w.now + 7200 {
                return None;
            }
            let t = p.time + 600;
            ok(factory::regtest_block(&p, t, vec![simple_cb(w, salt)]))
        }
        K_CHILD_OF_FORK => {
            let best: HashSet<H32> = w.refm.best_chain(&anchor).into_iter().collect();
            let f = tree.iter().find(|h| !best.contains(*h))?;
            ok(good(&hdr_of(f)?))
        }
        K_CHILD_OF_ANCHOR => ok(good(&hdr_of(&anchor)?)),
        K_DUP_TREE => {
            let h = tree.get(1)?;
            bad(w.blocks.get(h)?.clone())
        }
        K_ANCHOR_ITSELF => bad(w.blocks.get(&anchor)?.clone()),
        K_CHILD_OF_STABLE => {
            if w.stable_height() == 0 {
                return None;
            }
            let p = w.refm.get(&anchor).parent;
            bad(good(&hdr_of(&p)?))
        }
        K_ORPHAN => {
            let mut fake = hdr_of(&tip)?;
            fake.nonce = fake.nonce.wrapping_add(77);
            fake.time += 1;
            bad(good(&fake))
        }
        K_EMPTY => raw(vec![]),
        K_TRUNC_40 | K_TRUNC_80 | K_TRUNC_MID_TX => {
            let b = good(&hdr_of(&tip)?);
            let bytes = factory::block_bytes(&b);
            let cut = match k {
                K_TRUNC_40 => 40,
                K_TRUNC_80 => 80,
                _ => bytes.len() - 7,
            };
            raw(bytes[..cut].to_vec())
        }
        K_TRAILING => {
            let b = good(&hdr_of(&tip)?);
            let mut bytes = factory::block_bytes(&b);
            bytes.push(0x00);
            Some(Item {
                bytes,
                block: Some(b),
                valid_by_construction: true,
                decodes: None,
            })
        }
        K_BAD_POW => {
            let mut b = good(&hdr_of(&tip)?);
            factory::unmine(&mut b.header);
            bad(b)
        }
        K_TIME_OLD => {
            let p = hdr_of(&tip)?;
            let mtp = median_time_past(w, &tip);
            let txs = vec![simple_cb(w, salt)];
            bad(factory::regtest_block(&p, mtp, txs))
        }
        K_TIME_JUST_ABOVE_MEDIAN => {
            let p = hdr_of(&tip)?;
            let mtp = median_time_past(w, &tip);
            ok(factory::regtest_block(&p, mtp + 1, vec![simple_cb(w, salt)]))
        }
        K_TIME_AT_LIMIT => {
            let p = hdr_of(&tip)?;
            ok(factory::regtest_block(&p, (w.now + 7200) as u32, vec![simple_cb(w, salt)]))
        }
        K_ANNOUNCED_BAD_BODY | K_ANNOUNCED_GOOD => {
            // the first announced header whose block has not arrived and whose parent is in the tree
            let a = w.announced.iter().find(|a| {
                a.block.is_some() && !w.refm.has(&a.hash) && tree.contains(&a.prev)
            })?;
            let b = a.block.clone()?;
            if k == K_ANNOUNCED_GOOD {
                ok(b)
            } else {
                bad(bitcoin::Block { header: b.header, txdata: vec![simple_cb(w, salt)] })
            }
        }
        K_CHILD_OF_ANNOUNCED => {
            // delivered out of order: its parent is known only as an announced header (admissible
            // only if an earlier item of the same reply delivered that parent)
            let a = w.announced.iter().find(|a| {
                a.block.is_some() && !w.refm.has(&a.hash) && tree.contains(&a.prev)
            })?;
            ok(good(&a.header))
        }
        K_TWIN_OF_TREE_BLOCK => {
            // the same block template mined again: same parent, same transactions, one
            // second later - a different, new and valid block
            let h = tree.get(1).or(tree.first())?;
            if *h == anchor {
                return None;
            }
            let orig = w.blocks.get(h)?;
            let parent = w.blocks.get(&w.refm.get(h).parent)?.header;
            let t = orig.header.time + 1 + pos as u32 + 10 * resp_no as u32;
            if t as u64 > w.now + 7200 {
                return None;
            }
            ok(factory::regtest_block(&parent, t, orig.txdata.clone()))
        }
        K_TIME_FUTURE => {
            let p = hdr_of(&tip)?;
            let txs = vec![simple_cb(w, salt)];
            bad(factory::regtest_block(&p, (w.now + 7201) as u32, txs))
        }
        K_WRONG_BITS => {
            let p = hdr_of(&tip)?;
            let txs = vec![simple_cb(w, salt)];
            let mut header = factory::make_header(p.block_hash(), p.time + 600, 0x207ffffe, &txs);
            factory::mine(&mut header);
            bad(bitcoin::Block { header, txdata: txs })
        }
        K_NO_TX => {
            let p = hdr_of(&tip)?;
            bad(factory::regtest_block(&p, p.time + 600, vec![]))
        }
        K_NONCOINBASE_FIRST => {
            let p = hdr_of(&tip)?;
            let cbp = w.refm.get(&tip).txs[0].txid;
            let t = spend_tx(&[(cbp, 0)], vec![(1, w.book.script(B))], 0, 0x55);
            bad(factory::regtest_block(&p, p.time + 600, vec![t, simple_cb(w, salt)]))
        }
        K_BAD_MERKLE => {
            let p = hdr_of(&tip)?;
            let txs = vec![simple_cb(w, salt)];
            let mut header = factory::make_header(p.block_hash(), p.time + 600, REGTEST_BITS, &txs);
            header.merkle_root = bitcoin::TxMerkleNode::from_byte_array([7; 32]);
            factory::mine(&mut header);
            bad(bitcoin::Block { header, txdata: txs })
        }
        K_DUP_TX => {
            // three transactions; duplicating the last one keeps the merkle root
            let p = hdr_of(&tip)?;
            let cbp = w.refm.get(&tip).txs[0].txid;
            let t1 = spend_tx(&[(cbp, 0)], vec![(1, w.book.script(B))], 0, 0x56);
            let t2 = spend_tx(&[(txid_of(&t1), 0)], vec![(1, w.book.script(C))], 0, 0x57);
            let txs = vec![simple_cb(w, salt), t1, t2.clone()];
            let mut header = factory::make_header(p.block_hash(), p.time + 600, REGTEST_BITS, &txs);
            factory::mine(&mut header);
            let mut mutated = txs.clone();
            mutated.push(t2);
            bad(bitcoin::Block { header, txdata: mutated })
        }
        _ => None,
    }
}

/// Announced-header blobs by kind, relative to the tip after the reply's blocks.
fn build_hdr(w: &World, k: u8, pos: usize, tip_after: &bitcoin::block::Header, first: Option<&bitcoin::block::Header>, resp_no: usize) -> Option<(Vec<u8>, Option<bitcoin::block::Header>)> {
    let salt = 9000 + resp_no as u64 * 100 + pos as u64;
    let mk = |parent: &bitcoin::block::Header, s: u64| {
        let txs = vec![coinbase_tx(s, vec![(1, w.book.script(G))])];
        let mut h = factory::make_header(parent.block_hash(), parent.time + 600, REGTEST_BITS, &txs);
        factory::mine(&mut h);
        h
    };
    match k {
        H_VALID => {
            let h = mk(tip_after, salt);
            Some((factory::header_bytes(&h), Some(h)))
        }
        H_CHAINED => {
            let h = mk(first?, salt);
            Some((factory::header_bytes(&h), Some(h)))
        }
        H_DUP => {
            let h = *first?;
            Some((factory::header_bytes(&h), Some(h)))
        }
        H_OF_TREE_BLOCK => Some((factory::header_bytes(tip_after), Some(*tip_after))),
        H_UNCONNECTED => {
            let mut fake = *tip_after;
            fake.time += 3;
            fake.nonce = fake.nonce.wrapping_add(1234);
            let h = mk(&fake, salt);
            Some((factory::header_bytes(&h), Some(h)))
        }
        H_BAD_POW => {
            let mut h = mk(tip_after, salt + 50);
            factory::unmine(&mut h);
            Some((factory::header_bytes(&h), Some(h)))
        }
        H_79 => {
            let h = mk(tip_after, salt + 60);
            Some((factory::header_bytes(&h)[..79].to_vec(), None))
        }
        H_81 => {
            let h = mk(tip_after, salt + 70);
            let mut b = factory::header_bytes(&h);
            b.push(1);
            Some((b, Some(h)))
        }
        H_EMPTY => Some((vec![], None)),
        H_ON_RETAINED => {
            let retained: HashSet<H32> = dump_unstable().ok()?.hdr_by_hash.keys().copied().collect();
            let tree: HashSet<H32> = w.tree_hashes().into_iter().collect();
            let p = w
                .announced
                .iter()
                .filter(|a| retained.contains(&a.hash) && !tree.contains(&a.hash))
                .max_by_key(|a| (a.height, a.hash))?;
            let h = mk(&p.header, salt + 80);
            Some((factory::header_bytes(&h), Some(h)))
        }
        _ => None,
    }
}

/// Fingerprint with the error counters masked (the only thing a reject may change).
fn fp_without_error_counters() -> u128 {
    let bytes = crate::world::state_bytes(true);
    let mut v: ciborium::Value = ciborium::de::from_reader(bytes.as_slice()).unwrap();
    fn mask(v: &mut ciborium::Value) {
        use ciborium::Value as V;
        if let V::Map(entries) = v {
            for (k, val) in entries.iter_mut() {
                if let V::Text(n) = k {
                    match n.as_str() {
                        "num_block_deserialize_errors" | "num_insert_block_errors" => *val = V::Null,
                        _ => mask(val),
                    }
                } else {
                    mask(val);
                }
            }
        } else if let V::Array(items) = v {
            for i in items.iter_mut() {
                mask(i);
            }
        }
    }
    mask(&mut v);
    let mut out = vec![];
    ciborium::ser::into_writer(&v, &mut out).unwrap();
    out.extend(crate::world::logical_dump());
    let h = crate::util::sha256(&out);
    u128::from_le_bytes(h[..16].try_into().unwrap())
}

fn counters() -> (u64, u64) {
    with_state(|s| {
        (
            s.syncing_state.num_block_deserialize_errors,
            s.syncing_state.num_insert_block_errors,
        )
    })
}

pub fn work_pending(w: &World) -> bool {
    w.is_ingesting()
        || with_state(|s| ic_btc_canister::unstable_blocks::peek(&s.unstable_blocks).is_some())
}

/// Feeds one reply through heartbeats: ingestion rounds first (as the heartbeat insists),
/// then the fetching round, then the processing round.
pub fn feed(w: &mut World, blocks: Vec<Vec<u8>>, next: Vec<Vec<u8>>) -> Result<(), String> {
    let mut guard = 0;
    while work_pending(w) {
        w.heartbeat_with(None, None)?;
        guard += 1;
        if guard > 50 {
            return Err("ingestion does not finish".into());
        }
    }
    w.heartbeat_with(Some(complete_reply(blocks, next)), None)?;
    w.heartbeat_with(None, None)?;
    Ok(())
}

pub fn absorb(w: &mut World, candidates: &[bitcoin::Block]) {
    let tree = w.tree_hashes();
    let mut progress = true;
    while progress {
        progress = false;
        for h in &tree {
            if w.refm.has(h) {
                continue;
            }
            if let Some(b) = candidates.iter().find(|b| b.block_hash().to_byte_array() == *h) {
                if w.refm.has(&b.header.prev_blockhash.to_byte_array()) {
                    let d = ic_btc_types::Block::new(b.clone()).difficulty(w.net());
                    w.record(b, d);
                    progress = true;
                }
            }
        }
    }
}

impl C10Model {
    fn apply_resp(&self, s: &mut XCtx, items: &[u8], next: &[u8], check: bool, out: &mut Out) -> bool {
        let w = &mut s.w;
        let resp_no = s.resps;
        s.resps += 1;
        // the heartbeat ingests before it fetches: the reply is composed by the source
        // against the tree it was asked about, i.e. after pending ingestion
        let mut guard = 0;
        while work_pending(w) && guard < 50 {
            if let Err(p) = w.heartbeat_with(None, None) {
                s.dead = true;
                if check {
                    out.violation("heartbeat-trap", None, json!({"panic": p, "phase": "ingestion before the fetch"}));
                }
                return false;
            }
            guard += 1;
        }
        // build items
        let mut built: Vec<Item> = vec![];
        for (pos, k) in items.iter().enumerate() {
            let prev = built.last().and_then(|i| i.block.as_ref());
            match build_item(w, *k, pos, prev, resp_no) {
                Some(it) => built.push(it),
                None => return false, // not applicable in this state: path ends silently
            }
        }
        // expected admission, sequentially
        let pre_tree: Vec<H32> = w.tree_hashes();
        let mut present: HashSet<H32> = pre_tree.iter().copied().collect();
        let mut admitted: Vec<usize> = vec![];
        let mut first_reject: Option<(usize, Expect)> = None;
        for (i, it) in built.iter().enumerate() {
            let e = match (&it.block, it.decodes) {
                (_, Some(false)) => Expect::RejectDecode,
                (Some(b), d) => {
                    let h = b.block_hash().to_byte_array();
                    let p = b.header.prev_blockhash.to_byte_array();
                    let okk = it.valid_by_construction && present.contains(&p) && !present.contains(&h);
                    if d.is_none() {
                        Expect::Either
                    } else if okk {
                        Expect::Admit
                    } else {
                        Expect::RejectInsert
                    }
                }
                (None, _) => Expect::RejectDecode,
            };
            match e {
                Expect::Admit => {
                    present.insert(built[i].block.as_ref().unwrap().block_hash().to_byte_array());
                    admitted.push(i);
                }
                other => {
                    first_reject = Some((i, other));
                    break;
                }
            }
        }
        // announced headers are built against the tip the reply would produce
        let tip_hdr = {
            let info = match w.info() {
                Ok(i) => i,
                Err(_) => return false,
            };
            let tip: H32 = info.block_hash.clone().try_into().unwrap();
            // the best tip after the admitted blocks: approximated by the last admitted
            // block if it extends the tip, else the current tip (headers only need a
            // connected parent in the tree)
            admitted
                .last()
                .map(|i| built[*i].block.as_ref().unwrap().header)
                .unwrap_or(w.blocks.get(&tip).unwrap().header)
        };
        let mut hdrs: Vec<(u8, Vec<u8>, Option<bitcoin::block::Header>)> = vec![];
        for (pos, k) in next.iter().enumerate() {
            let first = hdrs.iter().find(|h| h.0 == H_VALID).and_then(|h| h.2.as_ref()).cloned();
            match build_hdr(w, *k, pos, &tip_hdr, first.as_ref(), resp_no) {
                Some((bytes, h)) => hdrs.push((*k, bytes, h)),
                None => return false,
            }
        }
        let (de0, ie0) = counters();
        let hdr_prev_before: HashMap<H32, H32> = dump_unstable()
            .map(|d| d.hdr_by_hash.iter().filter_map(|(k, v)| <H32>::try_from(v.1.as_slice()).ok().map(|p| (*k, p))).collect())
            .unwrap_or_default();
        let hdrs_before: HashSet<H32> = hdr_prev_before.keys().copied().collect();
        let r = feed(
            w,
            built.iter().map(|b| b.bytes.clone()).collect(),
            hdrs.iter().map(|h| h.1.clone()).collect(),
        );
        if let Err(p) = r {
            s.dead = true;
            if check {
                out.violation(
                    "heartbeat-trap",
                    None,
                    json!({"panic": p, "items": items.iter().map(|k| item_name(*k)).collect::<Vec<_>>(), "next": next}),
                );
            }
            return false;
        }
        let cands: Vec<bitcoin::Block> = built.iter().filter_map(|b| b.block.clone()).collect();
        absorb(w, &cands);
        if !check {
            return true;
        }
        out.count("responses_fed");
        // which blocks entered the tree?
        let post_tree: HashSet<H32> = w.tree_hashes().into_iter().collect();
        let mut counted: HashSet<H32> = HashSet::new();
        let entered: Vec<usize> = built
            .iter()
            .enumerate()
            .filter(|(_, it)| {
                it.block
                    .as_ref()
                    .map(|b| {
                        let h = b.block_hash().to_byte_array();
                        // the same block offered twice in one reply enters once
                        post_tree.contains(&h) && !pre_tree.contains(&h) && counted.insert(h)
                    })
                    .unwrap_or(false)
            })
            .map(|(i, _)| i)
            .collect();
        let (de1, ie1) = counters();
        let desc = || {
            json!({"items": items.iter().map(|k| item_name(*k)).collect::<Vec<_>>(), "next": next,
                   "expected_admitted_positions": admitted, "entered_positions": entered,
                   "first_reject": first_reject.as_ref().map(|(i, e)| format!("{} {:?}", i, e)),
                   "deserialize_errors": de1 - de0, "insert_errors": ie1 - ie0})
        };
        match &first_reject {
            None => {
                if entered != admitted {
                    out.violation("admission-set", None, desc());
                } else if (de1, ie1) != (de0, ie0) {
                    out.violation("error-counted-without-reject", None, desc());
                } else {
                    out.count("responses_fully_admitted");
                }
            }
            Some((i, e)) => {
                let pos_key = format!("rejects_at_position_{}", i + 1);
                match e {
                    Expect::Either => {
                        // lenient decoding: either outcome, but it must be a prefix outcome
                        let mut with = admitted.clone();
                        with.push(*i);
                        let prefix_ok = entered == admitted || entered.starts_with(&with);
                        if !prefix_ok {
                            out.violation("admission-set", None, desc());
                        } else {
                            out.count("undecided_lenient_decoding");
                        }
                    }
                    Expect::RejectDecode => {
                        if entered != admitted {
                            out.violation("admission-set", None, desc());
                        } else if (de1 - de0, ie1 - ie0) != (1, 0) {
                            out.violation("error-counter", None, desc());
                        } else {
                            out.count(&pos_key);
                            out.count(&format!("rejects: {}", item_name(items[*i])));
                        }
                    }
                    Expect::RejectInsert => {
                        if entered != admitted {
                            out.violation("admission-set", None, desc());
                        } else if (de1 - de0, ie1 - ie0) != (0, 1) {
                            out.violation("error-counter", None, desc());
                        } else {
                            out.count(&pos_key);
                            out.count(&format!("rejects: {}", item_name(items[*i])));
                        }
                    }
                    Expect::Admit => {}
                }
            }
        }
        // announced headers: only looked at when every block was admitted
        let d = match dump_unstable() {
            Ok(d) => d,
            Err(e) => {
                out.violation("machinery:dump", None, json!({"error": e}));
                return true;
            }
        };
        let now_hdrs: HashSet<H32> = d.hdr_by_hash.keys().copied().collect();
        let new_hdrs: HashSet<H32> = now_hdrs.difference(&hdrs_before).copied().collect();
        if first_reject.is_some() && !matches!(first_reject, Some((_, Expect::Either))) {
            if !new_hdrs.is_empty() {
                out.violation("headers-retained-after-reject", None, desc());
            }
        } else if !hdrs.is_empty() {
            // soundness: every retained new header is one of the well-formed, valid,
            // connected ones we offered
            let mut must: Vec<H32> = vec![];
            let mut may: HashSet<H32> = HashSet::new();
            let mut blocked = false;
            // after a header whose fate the statement does not decide, later ones are "may"
            let mut undecided_tail = false;
            let mut known: HashSet<H32> = post_tree.clone();
            known.extend(hdrs_before.iter().copied());
            // parent links of pending headers (retained before this reply + accepted in it)
            let mut prev_of: HashMap<H32, H32> = hdr_prev_before.clone();
            let connected = |start: &H32, prev_of: &HashMap<H32, H32>| -> bool {
                let mut cur = *start;
                for _ in 0..64 {
                    if post_tree.contains(&cur) {
                        return true;
                    }
                    match prev_of.get(&cur) {
                        Some(p) => cur = *p,
                        None => return false,
                    }
                }
                false
            };
            for (k, _bytes, h) in &hdrs {
                let Some(h) = h else {
                    blocked = true; // undecodable blob stops the processing
                    continue;
                };
                let hh = h.block_hash().to_byte_array();
                let parent = h.prev_blockhash.to_byte_array();
                let parent_known = known.contains(&parent);
                let valid = !matches!(*k, H_BAD_POW) && parent_known && !post_tree.contains(&hh);
                if matches!(*k, H_81) {
                    // trailing byte: lenient decoding, undecided
                    if valid {
                        may.insert(hh);
                        known.insert(hh);
                        prev_of.insert(hh, parent);
                    }
                    continue;
                }
                if blocked {
                    continue;
                }
                if matches!(*k, H_DUP) && known.contains(&hh) {
                    continue; // already known: skipped, processing continues
                }
                if valid && !connected(&parent, &prev_of) {
                    // the parent is a retained header of a discarded fork: whether such a
                    // header is still extended is not decided by the statement (it must not
                    // trap, which the heartbeat-trap oracle above judges)
                    out.count("headers_on_a_retained_header_of_a_discarded_fork");
                    may.insert(hh);
                    known.insert(hh);
                    prev_of.insert(hh, parent);
                    undecided_tail = true;
                    continue;
                }
                if valid {
                    if !undecided_tail {
                        must.push(hh);
                    }
                    may.insert(hh);
                    known.insert(hh);
                    prev_of.insert(hh, parent);
                } else if undecided_tail {
                    continue;
                } else {
                    blocked = true;
                }
            }
            for nh in &new_hdrs {
                if !may.contains(nh) {
                    out.violation("unsound-header-retained", None, json!({"header": short(nh), "next": next}));
                }
            }
            for m in &must {
                if !now_hdrs.contains(m) {
                    out.violation("valid-header-not-retained", None, json!({"header": short(m), "next": next}));
                }
            }
            out.count("header_lists_checked");
            out.add("headers_retained", new_hdrs.len() as u64);
        }
        true
    }
}

impl Model for C10Model {
    type S = XCtx;
    type Ev = XEv;

    fn init(&self) -> XCtx {
        XCtx {
            w: World::new(self.cfg.clone()),
            last: None,
            dead: false,
            resps: 0,
        }
    }

    fn enabled(&self, s: &XCtx, hist: &[XEv]) -> Vec<XEv> {
        if s.dead {
            return vec![];
        }
        let mut evs = vec![];
        let base_hist: Vec<Ev> = hist
            .iter()
            .filter_map(|e| if let XEv::Base(b) = e { Some(b.clone()) } else { None })
            .collect();
        if s.resps == 0 {
            for e in self.base.enabled(&s.w, &base_hist, s.last.as_ref()) {
                evs.push(XEv::Base(e));
            }
        }
        if s.resps < self.max_resps {
            // all item lists of length 1..=max_items, and header lists on top of the
            // all-valid replies
            let mut lists: Vec<Vec<u8>> = vec![vec![]];
            let mut frontier: Vec<Vec<u8>> = vec![vec![]];
            for _ in 0..self.max_items {
                let mut nf = vec![];
                for l in &frontier {
                    for k in &self.item_kinds {
                        if *k == K_CHILD_OF_PREVIOUS && l.is_empty() {
                            continue;
                        }
                        let mut n = l.clone();
                        n.push(*k);
                        nf.push(n);
                    }
                }
                lists.extend(nf.iter().cloned());
                frontier = nf;
            }
            for l in &lists {
                if !l.is_empty() {
                    evs.push(XEv::Resp { items: l.clone(), next: vec![] });
                }
            }
            // header lists with zero or one valid block in front
            let mut hl: Vec<Vec<u8>> = vec![];
            let mut fr: Vec<Vec<u8>> = vec![vec![]];
            for _ in 0..self.max_hdrs {
                let mut nf = vec![];
                for l in &fr {
                    for k in &self.hdr_kinds {
                        if (*k == H_CHAINED || *k == H_DUP) && !l.contains(&H_VALID) {
                            continue;
                        }
                        let mut n = l.clone();
                        n.push(*k);
                        nf.push(n);
                    }
                }
                hl.extend(nf.iter().cloned());
                fr = nf;
            }
            for h in &hl {
                evs.push(XEv::Resp { items: vec![], next: h.clone() });
                evs.push(XEv::Resp { items: vec![K_CHILD_OF_TIP], next: h.clone() });
                evs.push(XEv::Resp { items: vec![K_BAD_POW], next: h.clone() });
            }
        }
        evs
    }

    fn apply(&self, s: &mut XCtx, ev: &XEv, check: bool, out: &mut Out) -> bool {
        match ev {
            XEv::Base(e) => {
                let a = chain::apply_ev(&mut s.w, e);
                if let Applied::Trap(p) = &a {
                    s.dead = true;
                    if check {
                        out.violation("trap", None, json!({"event": e, "panic": p}));
                    }
                    return false;
                }
                s.last = Some(a);
                true
            }
            XEv::Resp { items, next } => {
                s.last = None;
                self.apply_resp(s, items, next, check, out)
            }
        }
    }

    fn check(&self, s: &mut XCtx, hist: &[XEv], out: &mut Out) {
        out.distinct.insert(crate::world::full_fingerprint() as u64);
        // atomicity: after a reply with a rejected item the state equals the state after
        // the reply that carried only the admissible prefix (error counters aside)
        let Some(XEv::Resp { items, next }) = hist.last() else { return };
        let _ = next;
        if s.dead {
            return;
        }
        // recompute the admissible prefix by replaying: cheap way = compare with the run in
        // which the reply is cut after every possible prefix length and pick the one that
        // admits the same blocks
        let fp_full = fp_without_error_counters();
        let tree_full: Vec<H32> = s.w.tree_hashes();
        let (de, ie) = counters();
        let prefix_hist = &hist[..hist.len() - 1];
        let mut found = false;
        let mut scratch = Out::default();
        for cut in 0..=items.len() {
            let mut alt = self.init();
            let mut ok = true;
            for e in prefix_hist {
                if !self.apply(&mut alt, e, false, &mut scratch) {
                    ok = false;
                    break;
                }
            }
            if !ok {
                break;
            }
            // an empty reply is still a reply (cut = 0)
            let cut_items = items[..cut].to_vec();
            let next_for_cut = if cut == items.len() { next.clone() } else { vec![] };
            if !self.apply_resp(&mut alt, &cut_items, &next_for_cut, false, &mut scratch) {
                continue;
            }
            if alt.w.tree_hashes() == tree_full {
                let fp_alt = fp_without_error_counters();
                let (de2, ie2) = counters();
                if fp_alt == fp_full {
                    found = true;
                    if cut < items.len() {
                        out.count("atomic_rejects_confirmed");
                        let extra = (de + ie) - (de2 + ie2);
                        if extra != 1 {
                            out.violation(
                                "reject-changed-more-than-one-counter",
                                None,
                                json!({"extra_errors": extra}),
                            );
                        }
                    }
                    break;
                }
            }
        }
        if !found {
            out.violation(
                "reject-not-atomic",
                None,
                json!({"items": items.iter().map(|k| item_name(*k)).collect::<Vec<_>>(), "next": next,
                       "note": "no admissible prefix of the reply leads to the same state (error counters masked)"}),
            );
        }
        // restore
        let mut fresh = self.init();
        for e in hist {
            self.apply(&mut fresh, e, false, &mut scratch);
        }
        *s = fresh;
        out.outcomes.insert(crate::util::fp64(&tree_full.concat()));
    }

    fn key(&self, s: &XCtx, hist: &[XEv]) -> Option<u128> {
        // merge only base states (before any reply); reply states are leaves or short
        if s.resps > 0 {
            return None;
        }
        let mut b = crate::world::full_fingerprint().to_le_bytes().to_vec();
        let nblocks = hist.iter().filter(|e| matches!(e, XEv::Base(Ev::Block { .. }))).count() as u8;
        b.push(nblocks);
        b.push(s.w.ids.len() as u8);
        b.push(matches!(s.last, Some(Applied::Ingest(_))) as u8);
        b.push(hist.iter().filter(|e| matches!(e, XEv::Base(Ev::Hdr { .. }))).count() as u8);
        for a in &s.w.announced {
            b.extend(a.hash);
        }
        let h = crate::util::sha256(&b);
        Some(u128::from_le_bytes(h[..16].try_into().unwrap()))
    }

    fn sample(&self, s: &mut XCtx, hist: &[XEv]) -> Value {
        json!({"history": hist, "blocks_in_tree": s.w.tree_hashes().len(), "stable_height": s.w.stable_height()})
    }
}

pub fn run(tier: &str) -> i32 {
    let mut rep = Report::new("C10", tier, "model_checking");
    let quick = tier == "quick";
    // (theta, base blocks, max_items, max_hdrs)
    let parts: Vec<(u32, usize, usize, usize)> = if quick {
        vec![(1, 2, 2, 2), (2, 3, 2, 2)]
    } else {
        vec![(1, 2, 3, 3), (1, 3, 2, 3), (2, 4, 2, 2), (3, 3, 2, 3)]
    };
    for (theta, n, mi, mh) in parts {
        let mut base = Alphabet::tree(n, &[1]);
        // announced headers in the base states (so that replies can deliver, or fail to
        // deliver, the block of an announced header): in the smaller part only
        if n <= 2 || !quick {
            base.hdr_lens = vec![1, 2];
            base.max_hdr_events = 1;
        }
        let m = C10Model {
            cfg: WorldCfg::regtest(theta),
            base,
            item_kinds: ALL_ITEMS.to_vec(),
            max_items: mi,
            hdr_kinds: ALL_HDRS.to_vec(),
            max_hdrs: mh,
            max_resps: 1,
        };
        let e = explore(&m, &Limits::new(2, if quick { 300 } else { 6000 }));
        rep.absorb(
            &format!("TREE n={} theta={} x replies of <= {} items over {} kinds, <= {} announced headers over {} kinds", n, theta, mi, ALL_ITEMS.len(), mh, ALL_HDRS.len()),
            e,
            json!({"threshold": theta, "base_blocks": n, "max_items": mi, "item_kinds": ALL_ITEMS.iter().map(|k| item_name(*k)).collect::<Vec<_>>(),
                   "max_announced_headers": mh}),
        );
    }
    // announced headers left over from a discarded fork (they are pruned by height only): a
    // later reply announces a header on top of one of them
    for (theta, n) in if quick { vec![(1u32, 3usize)] } else { vec![(1, 4), (2, 4)] } {
        let mut base = Alphabet::tree(n, &[1]);
        base.hdr_lens = vec![2, 3];
        base.max_hdr_events = 1;
        let m = C10Model {
            cfg: WorldCfg::regtest(theta),
            base,
            item_kinds: vec![K_CHILD_OF_TIP, K_CHILD_OF_FORK],
            max_items: 1,
            hdr_kinds: vec![H_VALID, H_CHAINED, H_ON_RETAINED, H_UNCONNECTED],
            max_hdrs: 2,
            max_resps: 1,
        };
        let e = explore(&m, &Limits::new(2, if quick { 300 } else { 6000 }));
        rep.absorb(
            &format!("TREE+Hdr n={} theta={} x replies announcing headers on retained headers (live or of a discarded fork)", n, theta),
            e,
            json!({"threshold": theta, "base_blocks": n, "announced_chain_lengths_in_base_states": [2, 3],
                   "header_kinds": ["valid on tip", "chained", "child of the highest retained announced header", "unconnected"]}),
        );
    }
    rep.floor("headers_on_a_retained_header_of_a_discarded_fork", 5);
    // base states reached through time-sliced ingestion (the stable header of a block ingested
    // in several rounds is part of what later validations walk over): valid children must
    // still be admitted, invalid ones rejected
    for (theta, n) in if quick { vec![(1u32, 3usize)] } else { vec![(1, 4), (2, 4)] } {
        let mut base = Alphabet::tree(n, &[1]);
        base.bodies = vec![crate::chain::BODY_CB, crate::chain::BODY_MULTI];
        base.max_special = 2;
        base.budgets = vec![0, 1];
        let m = C10Model {
            cfg: WorldCfg::regtest(theta),
            base,
            item_kinds: vec![K_CHILD_OF_TIP, K_CHILD_OF_PREVIOUS, K_TIME_JUST_ABOVE_MEDIAN, K_TIME_OLD, K_BAD_POW, K_WRONG_BITS],
            max_items: 2,
            hdr_kinds: vec![H_VALID, H_CHAINED],
            max_hdrs: 2,
            max_resps: 1,
        };
        let e = explore(&m, &Limits::new(2, if quick { 300 } else { 6000 }));
        rep.absorb(
            &format!("TREE sliced n={} theta={} budgets=[unlimited,1] x replies (time and target rules that walk over stable headers)", n, theta),
            e,
            json!({"threshold": theta, "base_blocks": n, "ingestion_budgets": [0, 1]}),
        );
    }
    // channel equivalence: the direct channel used by the other properties and the
    // heartbeat channel give the same state
    channel_equivalence(&mut rep, if quick { 3 } else { 4 });
    rep.rule = "in every state of the TREE profile (equal difficulty) every get_successors reply of <= k items over the item alphabet (valid children of tip / fork / anchor / previous item, the block of an announced header, a block whose parent is only an announced header, a sibling of a tree block with the same transactions, duplicates, the anchor, child of a stabilised block, orphan, empty / truncated / trailing bytes, bad proof of work, bad timestamps, wrong bits, no transactions, non-coinbase first, wrong merkle root, duplicated transaction) and every announced-header list of <= h entries is fed through the real heartbeat (candid-typed reply); admitted = longest admissible prefix, exactly one error counter +1, state equal to the state after the prefix-only reply".into();
    rep.bounds = json!({"tier": tier});
    rep.assume("regtest (mined) blocks only: mainnet/testnet proof of work is not computable; header rules on those networks are C11's");
    rep.assume("bytes that the lenient decoder accepts with trailing data are counted as undecided");
    rep.floor("responses_fed", 5000);
    rep.floor("responses_fully_admitted", 100);
    rep.floor("rejects_at_position_1", 100);
    rep.floor("rejects_at_position_2", 100);
    rep.floor("atomic_rejects_confirmed", 1000);
    rep.floor("header_lists_checked", 500);
    rep.floor("headers_retained", 100);
    rep.finish()
}

/// The same blocks through `state::insert_block` and through heartbeat replies.
fn channel_equivalence(rep: &mut Report, n: usize) {
    let mut out = Out::default();
    // all parent vectors of n blocks (tree shapes x arrival orders)
    fn rec(n: usize, cur: &mut Vec<usize>, all: &mut Vec<Vec<usize>>) {
        if cur.len() == n {
            all.push(cur.clone());
            return;
        }
        for p in 0..=cur.len() {
            cur.push(p);
            rec(n, cur, all);
            cur.pop();
        }
    }
    let mut shapes = vec![];
    rec(n, &mut vec![], &mut shapes);
    for shape in &shapes {
        for theta in [1u32, 2] {
            // direct (lazy fee evaluation: the heartbeat's eager fee cache is C15's subject)
            let mut cfg = WorldCfg::regtest(theta);
            cfg.lazy_fees = true;
            let mut w = World::new(cfg.clone());
            let mut blocks: Vec<bitcoin::Block> = vec![];
            let mut dead = false;
            for p in shape {
                let live = w.tree_hashes();
                let parent = w.ids[*p];
                if !live.contains(&parent) {
                    dead = true;
                    break;
                }
                let id = w.ids.len();
                let b = w.make_block(&parent, vec![coinbase_tx(id as u64, vec![(chain::coin_value(id), w.book.script(A))])]);
                assert_eq!(w.deliver_direct(&b, None), Ok(true));
                blocks.push(b);
                let _ = w.ingest(None);
            }
            if dead {
                continue;
            }
            let fp_direct = fp_without_error_counters();
            // heartbeat channel, one block per reply
            let mut w2 = World::new(cfg.clone());
            let mut ok = true;
            for b in &blocks {
                if feed(&mut w2, vec![factory::block_bytes(b)], vec![]).is_err() {
                    ok = false;
                    break;
                }
            }
            // drain ingestion
            let mut guard = 0;
            while ok && work_pending(&w2) && guard < 20 {
                let _ = w2.heartbeat_with(None, None);
                guard += 1;
            }
            let fp_hb = fp_without_error_counters();
            out.states += 1;
            out.transitions += shape.len() as u64;
            out.set_history(json!({"family": "channel-equivalence", "parents": shape, "theta": theta}));
            if !ok || fp_direct != fp_hb {
                out.violation("channels-differ", None, json!({"parents": shape, "theta": theta}));
            } else {
                out.count("channel_equivalences_confirmed");
            }
        }
    }
    out.leaves += shapes.len() as u64;
    rep.out.merge(out);
    rep.parts.push(json!({"part": "channel equivalence (direct insert_block vs heartbeat replies)", "blocks": n, "shapes": shapes.len()}));
}

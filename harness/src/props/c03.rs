//! C03 — finality: blocks stabilise only by the difficulty rule and never revert.
use crate::chain::*;
use crate::engine::{explore, Limits, Out};
use crate::refmodel::{RefModel, H32};
use crate::report::Report;
use crate::util::{fp64, short};
use crate::world::{Ingested, World, WorldCfg};
use bitcoin::hashes::Hash;
use ic_btc_canister::with_state;
use ic_btc_interface::Network;
use serde_json::json;
use std::collections::HashSet;

pub struct C03;

#[derive(Default)]
pub struct Mon {
    /// hash recorded at each stable height, as first observed
    stable: Vec<H32>,
}

/// The child of `a` that qualifies under the difficulty rule of the statement, within the
/// tree of all known descendants of `a`.
pub fn qualifying_child(refm: &RefModel, a: &H32, theta: u32) -> Option<H32> {
    let t = theta as u128 * refm.get(a).difficulty;
    let kids = refm.kids(a);
    let ws: Vec<(H32, u128)> = kids.iter().map(|k| (*k, refm.weight(k))).collect();
    for (c, w) in &ws {
        if *w >= t && ws.iter().all(|(o, ow)| o == c || (*w >= *ow && *w - *ow >= t)) {
            return Some(*c);
        }
    }
    None
}

/// Children with enough weight but an insufficient lead (non-vacuity of the lead test).
fn heavy_but_contested(refm: &RefModel, a: &H32, theta: u32) -> bool {
    let t = theta as u128 * refm.get(a).difficulty;
    let ws: Vec<u128> = refm.kids(a).iter().map(|k| refm.weight(k)).collect();
    ws.len() >= 2 && ws.iter().any(|w| *w >= t) && qualifying_child(refm, a, theta).is_none()
}

fn stored_hash_at(h: u32) -> Option<H32> {
    with_state(|s| s.stable_block_headers.get_with_height(h)).map(|hd| hd.block_hash().to_byte_array())
}

impl Oracle for C03 {
    type Mon = Mon;
    fn prop(&self) -> &'static str {
        "C03"
    }

    fn on_transition(
        &self,
        w: &mut World,
        mon: &mut Mon,
        ev: &Ev,
        pre: &Snap,
        applied: &Applied,
        check: bool,
        out: &mut Out,
    ) {
        let post = snap(w);
        // (2) keep the record of stable blocks in step even during replays
        let sh = post.stable_height as usize;
        let mut reverted = vec![];
        for h in 0..sh {
            let got = stored_hash_at(h as u32);
            if h < mon.stable.len() {
                if got != Some(mon.stable[h]) {
                    reverted.push((h, got));
                }
            } else {
                mon.stable.push(got.unwrap_or([0xff; 32]));
            }
        }
        if !check {
            return;
        }
        let refm = &w.refm;
        // (1) stable height never decreases
        if post.stable_height < pre.stable_height {
            out.violation(
                "stable-height-decreased",
                None,
                json!({"before": pre.stable_height, "after": post.stable_height, "event": ev}),
            );
        }
        // (2) recorded stable blocks never change, and are the chain below the anchor
        for (h, got) in reverted {
            out.violation(
                "stable-block-changed",
                None,
                json!({"height": h, "first_recorded": short(&mon.stable[h]), "now": got.map(|g| short(&g))}),
            );
        }
        if refm.has(&post.anchor) {
            let chain = refm.chain_to(&post.anchor);
            if chain.len() as u32 != post.stable_height + 1 {
                out.violation(
                    "anchor-height-mismatch",
                    None,
                    json!({"stable_height": post.stable_height, "anchor_ref_height": chain.len() - 1}),
                );
            }
            for (h, b) in chain.iter().enumerate().take(sh) {
                if h < mon.stable.len() && mon.stable[h] != *b {
                    out.violation(
                        "stable-block-not-on-anchor-chain",
                        None,
                        json!({"height": h, "recorded": short(&mon.stable[h]), "chain": short(b)}),
                    );
                }
            }
        } else {
            out.violation("anchor-unknown", None, json!({"anchor": short(&post.anchor)}));
            return;
        }

        let pre_set: HashSet<H32> = pre.tree.iter().copied().collect();
        let post_set: HashSet<H32> = post.tree.iter().copied().collect();
        if post.anchor != pre.anchor {
            out.count("anchor_advances");
            // (3)+(5): every step goes to the qualifying child, which is the second block
            // of the best chain from the old anchor. Threshold in force: the one before
            // the event (set_config never ingests).
            let path = refm.chain_to(&post.anchor);
            let Some(start) = path.iter().position(|b| *b == pre.anchor) else {
                out.violation(
                    "anchor-not-descendant",
                    None,
                    json!({"old": short(&pre.anchor), "new": short(&post.anchor)}),
                );
                return;
            };
            if !matches!(ev, Ev::Ingest { .. }) {
                out.violation(
                    "anchor-moved-outside-ingestion",
                    None,
                    json!({"event": ev}),
                );
            }
            for i in start..path.len() - 1 {
                let a = path[i];
                let c = path[i + 1];
                let q = qualifying_child(refm, &a, pre.threshold);
                if q != Some(c) {
                    out.violation(
                        "advance-to-non-qualifying-child",
                        None,
                        json!({"anchor": short(&a), "went_to": short(&c), "qualifying": q.map(|x| short(&x)),
                               "threshold": pre.threshold, "event": ev}),
                    );
                }
                let best = refm.best_chain(&a);
                if best.get(1) != Some(&c) {
                    out.violation(
                        "new-anchor-not-on-served-chain",
                        None,
                        json!({"anchor": short(&a), "went_to": short(&c), "best_second": best.get(1).map(|x| short(x))}),
                    );
                }
                if refm.kids(&a).len() >= 2 {
                    out.count("advances_discarding_siblings");
                }
            }
            // (6) exactly the old anchors and the losing subtrees are gone
            let want: HashSet<H32> = refm
                .subtree(&post.anchor)
                .into_iter()
                .filter(|b| pre_set.contains(b))
                .collect();
            if want != post_set {
                out.violation(
                    "tree-after-advance",
                    None,
                    json!({"expected_blocks": want.len(), "observed_blocks": post_set.len()}),
                );
            }
        } else {
            // (6) no block disappears while the anchor stays
            let mut want = pre_set.clone();
            if matches!(applied, Applied::BlockAccepted) {
                want.insert(*w.ids.last().unwrap());
            }
            if want != post_set {
                out.violation(
                    "tree-changed-without-advance",
                    None,
                    json!({"expected_blocks": want.len(), "observed_blocks": post_set.len(), "event": ev}),
                );
            }
        }
        // (4) never withheld: after a completed ingestion opportunity nothing qualifies
        if matches!(
            applied,
            Applied::Ingest(Ingested::DoneWork) | Applied::Ingest(Ingested::Nothing)
        ) {
            if let Some(q) = qualifying_child(refm, &post.anchor, post.threshold) {
                out.violation(
                    "advance-withheld",
                    None,
                    json!({"anchor": short(&post.anchor), "qualifying_child": short(&q), "threshold": post.threshold}),
                );
            } else {
                out.count("ingestion_opportunities_checked");
            }
        }
        if let Ev::SetThreshold(_) = ev {
            let before = qualifying_child(refm, &post.anchor, pre.threshold).is_some();
            let after = qualifying_child(refm, &post.anchor, post.threshold).is_some();
            if before != after {
                out.count("threshold_changes_flipping_stability");
            }
        }
    }

    fn on_state(&self, w: &mut World, _mon: &mut Mon, _hist: &[Ev], out: &mut Out) {
        let anchor = w.anchor();
        out.distinct.insert(fp64(&crate::world::state_bytes(true)));
        out.outcomes.insert(fp64(&anchor));
        if w.refm.has(&anchor) && heavy_but_contested(&w.refm, &anchor, w.threshold()) {
            out.count("states_heavy_child_with_insufficient_lead");
        }
        // the stable part is also visible through the API: headers below the stable
        // height are those of the recorded blocks
        let sh = w.stable_height();
        if sh > 0 {
            match w.headers(0, Some(sh - 1)) {
                Ok(Ok(r)) => {
                    let chain = w.refm.chain_to(&anchor);
                    for (h, hd) in r.block_headers.iter().enumerate() {
                        if chain.get(h).map(|b| &w.refm.get(b).header) != Some(hd) {
                            // C07 owns the exact shape of header answers; here only
                            // "a stable block changed" is judged, when the count is right.
                            if r.block_headers.len() == sh as usize {
                                out.violation(
                                    "stable-header-via-api",
                                    None,
                                    json!({"height": h}),
                                );
                            }
                        }
                    }
                }
                Ok(Err(_)) | Err(_) => {}
            }
        }
    }
}

/// The documented adaptive depth bound: 500 at 0 unstable blocks, min(theta, 499) at
/// >= 1500, linear in between, rounded to nearest (exact rational arithmetic). Returns the
/// set of acceptable integers (two at an exact half).
pub fn depth_bound(total_unstable: u64, theta: u64) -> Vec<u64> {
    let maxd = 500u64;
    let mind = theta.min(maxd - 1);
    if total_unstable >= 1500 {
        return vec![mind];
    }
    // value = maxd - total * (maxd - mind) / 1500
    let num = maxd * 1500 - total_unstable * (maxd - mind); // value * 1500
    let fl = num / 1500;
    let rem = num % 1500;
    if rem * 2 < 1500 {
        vec![fl]
    } else if rem * 2 > 1500 {
        vec![fl + 1]
    } else {
        vec![fl, fl + 1]
    }
}

/// Depth-escape family on testnet/regtest: an anchor so heavy that the difficulty rule
/// never fires; the main branch grows one block at a time; a competing branch of length f
/// forks below. The anchor must advance exactly when longest >= bound and
/// longest - runner_up >= bound (judged only where "runner-up" is unambiguous).
fn escape_family(rep: &mut Report, net: Network, theta: u32, fork_len: usize, max_len: usize, contested_lead: Option<usize>) {
    escape_family_weighted(rep, net, theta, fork_len, 1, max_len, contested_lead)
}

/// The same family with fork blocks of difficulty `fork_diff` (main-branch blocks weigh 1): a
/// short heavy branch against a long light one. The depth rule is about the child on the
/// served (heaviest) chain: its depth against the bound and against the other child's.
pub fn escape_family_weighted(rep: &mut Report, net: Network, theta: u32, fork_len: usize, fork_diff: u128, max_len: usize, contested_lead: Option<usize>) {
    use crate::factory;
    let mut out = Out::default();
    let mut w = World::new(WorldCfg::on(net, theta));
    let deliver = |w: &mut World, b: &bitcoin::Block, d: u128| -> bool {
        match net {
            Network::Regtest => w.deliver_direct(b, Some(d)).unwrap_or(false),
            _ => w.deliver_push(b, Some(d)).unwrap_or(false),
        }
    };
    let mk = |w: &World, parent: &H32, salt: u64| -> bitcoin::Block {
        let ph = w.blocks.get(parent).unwrap().header;
        let txs = vec![factory::coinbase_tx(salt, vec![(50, w.book.script(factory::A))])];
        match net {
            Network::Regtest => factory::regtest_block(&ph, ph.time + 600, txs),
            _ => factory::unmined_block(&ph, ph.time + 600, 0x1d00ffff, txs),
        }
    };
    // heavy anchor H on genesis; genesis stabilises at once for theta = 1, else after
    // enough weight: H itself weighs 10^9 >= theta * 1.
    let g = w.refm.genesis;
    let hb = mk(&w, &g, 1);
    assert!(deliver(&mut w, &hb, 1_000_000_000));
    let _ = w.ingest(None);
    let heavy = *w.ids.last().unwrap();
    if w.anchor() != heavy {
        out.violation("machinery:escape-setup", None, json!({"note": "heavy anchor did not become the anchor"}));
        rep.out.merge(out);
        return;
    }
    // competing branch of length fork_len directly on the anchor
    let mut tip_f = heavy;
    for i in 0..fork_len {
        let b = mk(&w, &tip_f, 10_000 + i as u64);
        assert!(deliver(&mut w, &b, fork_diff));
        tip_f = *w.ids.last().unwrap();
    }
    let mut tip = heavy;
    let mut advanced_at: Option<usize> = None;
    let mut fork_now = fork_len;
    // steps: (grow fork?, grow main?) - in the contested variant the fork follows the main
    // branch at a constant distance, so that the number of unstable blocks passes 1500
    // while no branch has the lead the bound asks for
    'outer: for len in 1..=max_len {
        let mut steps: Vec<bool> = vec![]; // true = main branch, false = fork
        if let Some(lead) = contested_lead {
            if len > lead {
                steps.push(false);
            }
        }
        steps.push(true);
        for is_main in steps {
            let (parent, salt) = if is_main { (tip, 20_000 + len as u64) } else { (tip_f, 50_000 + len as u64) };
            let b = mk(&w, &parent, salt);
            if !deliver(&mut w, &b, if is_main { 1 } else { fork_diff }) {
                out.violation("escape-block-rejected", None, json!({"len": len, "main": is_main}));
                break 'outer;
            }
            if is_main {
                tip = *w.ids.last().unwrap();
            } else {
                tip_f = *w.ids.last().unwrap();
                fork_now += 1;
            }
            out.transitions += 1;
            let main_now = if is_main { len } else { len - 1 };
            let total = w.tree_hashes().len() as u64;
            let bounds = depth_bound(total, theta as u64);
            // the candidate is the child on the heaviest chain (first received on a tie: the
            // fork when it exists before the main branch starts)
            let w_main = main_now as u128;
            let w_fork = fork_now as u128 * fork_diff;
            let fork_is_candidate = fork_now > 0 && (w_fork > w_main || (w_fork == w_main && fork_len > 0));
            let (cand, other) = if fork_is_candidate { (fork_now as u64, main_now as u64) } else { (main_now as u64, fork_now as u64) };
            // mainnet has no depth escape (and the difficulty rule cannot fire here)
            let escapes = net != Network::Mainnet;
            let must = escapes && bounds.iter().all(|b| cand >= *b && cand.saturating_sub(other) >= *b);
            let may = escapes && bounds.iter().any(|b| cand >= *b && cand.saturating_sub(other) >= *b);
            if fork_is_candidate && (main_now as u64) > (fork_now as u64) {
                out.count("escape_judgements_with_the_heaviest_branch_shorter_than_the_longest");
            }
            let pre_anchor = w.anchor();
            let r = w.ingest(None);
            out.states += 1;
            if let Err(p) = r {
                out.violation("trap", None, json!({"panic": p, "len": len}));
                break 'outer;
            }
            let moved = w.anchor() != pre_anchor;
            // whatever happened, the served tip is the tip of the heaviest chain of the
            // accepted blocks above the (reference) anchor
            if !moved {
                let best = w.refm.best_chain(&pre_anchor);
                let served = w.info().ok().map(|i| i.block_hash);
                if served != best.last().map(|h| h.to_vec()) {
                    out.violation("served-tip-is-not-the-heaviest-chain", None, json!({"main_len": main_now, "fork_len": fork_now, "fork_difficulty": fork_diff.to_string()}));
                }
            }
            let detail = json!({"net": net.to_string(), "theta": theta, "fork_len": fork_now, "fork_difficulty": fork_diff.to_string(), "main_len": main_now,
                "contested_lead": contested_lead, "unstable_blocks": total, "bound": bounds});
            if moved && !may {
                out.violation("escape-early", None, detail.clone());
            }
            if !moved && must {
                out.violation("escape-withheld", None, detail.clone());
            }
            if may != must {
                out.count("escape_rounding_ties_undecided");
            }
            if total > 1500 {
                out.count("escape_judgements_beyond_1500_unstable_blocks");
            }
            if moved {
                advanced_at = Some(len);
                out.count("escape_firings");
                // the new anchor is the first block of the longer branch; the other is gone
                let tree: HashSet<H32> = w.tree_hashes().into_iter().collect();
                let loser = if fork_is_candidate { tip } else { tip_f };
                if fork_now > 0 && tree.contains(&loser) {
                    out.violation("escape-kept-losing-fork", None, json!({"len": len}));
                }
                break 'outer;
            }
        }
    }
    if net == Network::Mainnet && advanced_at.is_some() {
        out.violation(
            "escape-on-mainnet",
            None,
            json!({"theta": theta, "advanced_at": advanced_at}),
        );
    }
    out.leaves += 1;
    if out.samples.is_empty() {
        out.samples.push(json!({"family": "depth-escape", "net": net.to_string(), "theta": theta,
            "fork_len": fork_len, "contested_lead": contested_lead, "anchor_advanced_at_main_length": advanced_at}));
    }
    rep.out.merge(out);
}

/// Sliced variant: multi-output bodies and ingestion budgets, so that threshold changes
/// also land in the middle of an ingestion.
pub fn sliced_model(net: Network, theta: u32, n: usize, thresholds: &[u32]) -> ChainModel<C03> {
    let mut m = model(net, theta, n, &[1], thresholds, 1);
    m.alpha.bodies = vec![BODY_CB, BODY_MULTI];
    m.alpha.max_special = 2;
    m.alpha.budgets = vec![0, 1];
    // one upgrade at any boundary (also between two slices): what is recorded as stable must
    // survive it and the rule must keep being applied
    m.alpha.upgrades = vec![0];
    m.alpha.max_upgrades = 1;
    m
}

pub fn model(net: Network, theta: u32, n: usize, diffs: &[u8], thresholds: &[u32], max_tc: usize) -> ChainModel<C03> {
    let mut alpha = Alphabet::tree(n, diffs);
    alpha.thresholds = thresholds.to_vec();
    alpha.max_threshold_changes = max_tc;
    alpha.noop_ingest = true; // "never withheld" is judged at every ingestion opportunity
    ChainModel {
        cfg: WorldCfg::on(net, theta),
        alpha,
        oracle: C03,
    }
}

pub fn run(tier: &str) -> i32 {
    let mut rep = Report::new("C03", tier, "model_checking");
    let quick = tier == "quick";
    let parts: Vec<(Network, u32, usize, Vec<u8>, Vec<u32>, usize)> = if quick {
        vec![
            (Network::Regtest, 1, 4, vec![1, 2, 3], vec![1, 2], 1),
            (Network::Regtest, 2, 4, vec![1, 2, 3], vec![1, 2, 3], 1),
            (Network::Mainnet, 2, 4, vec![1, 2], vec![1, 2], 1),
            (Network::Testnet, 2, 4, vec![1, 2], vec![], 0),
            (Network::Regtest, 2, 5, vec![1, 2], vec![], 0),
            // nested forks whose longer branch is lighter (weights on both sides of the margin)
            (Network::Regtest, 1, 5, vec![1, 3], vec![], 0),
            (Network::Regtest, 2, 6, vec![1, 3], vec![], 0),
        ]
    } else {
        vec![
            (Network::Regtest, 1, 5, vec![1, 2, 3], vec![1, 2, 3], 2),
            (Network::Regtest, 2, 5, vec![1, 2, 3], vec![1, 2, 3], 2),
            (Network::Regtest, 3, 5, vec![1, 2, 3], vec![1, 2, 3], 1),
            (Network::Regtest, 2, 6, vec![1, 2, 3], vec![], 0),
            (Network::Regtest, 3, 7, vec![1, 2], vec![], 0),
            (Network::Mainnet, 2, 5, vec![1, 2, 3], vec![1, 2, 3], 1),
            (Network::Testnet, 2, 5, vec![1, 2, 3], vec![1, 2, 3], 1),
        ]
    };
    for (net, theta, n, diffs, ths, tc) in parts {
        let m = model(net, theta, n, &diffs, &ths, tc);
        let e = explore(&m, &Limits::new(3, if quick { 300 } else { 3000 }));
        rep.absorb(
            &format!("TREE net={} theta={} n={} D={:?} thresholds={:?}x{}", net, theta, n, diffs, ths, tc),
            e,
            json!({"network": net.to_string(), "threshold": theta, "max_blocks": n, "difficulties": diffs,
                   "set_threshold_values": ths, "max_threshold_changes": tc}),
        );
    }
    // threshold changes in the middle of a sliced ingestion
    let sliced: Vec<(u32, usize, Vec<u32>)> = if quick { vec![(1, 3, vec![1, 2])] } else { vec![(1, 4, vec![1, 2, 3]), (2, 4, vec![1, 3])] };
    for (theta, n, ths) in sliced {
        let m = sliced_model(Network::Regtest, theta, n, &ths);
        let e = explore(&m, &Limits::new(3, if quick { 300 } else { 3000 }));
        rep.absorb(
            &format!("TREE sliced theta={} n={} thresholds={:?} budgets=[unlimited,1]", theta, n, ths),
            e,
            json!({"network": "regtest", "threshold": theta, "max_blocks": n, "set_threshold_values": ths, "ingestion_budgets": [0, 1]}),
        );
    }
    // depth-escape family
    let fam: Vec<(Network, u32, usize)> = if quick {
        vec![(Network::Regtest, 2, 0), (Network::Regtest, 2, 2), (Network::Testnet, 144, 1), (Network::Mainnet, 2, 0)]
    } else {
        let mut v = vec![];
        for net in [Network::Regtest, Network::Testnet] {
            for theta in [1u32, 2, 144] {
                for f in [0usize, 1, 2, 5] {
                    v.push((net, theta, f));
                }
            }
        }
        v.push((Network::Mainnet, 2, 0));
        v.push((Network::Mainnet, 144, 2));
        v
    };
    let t0 = std::time::Instant::now();
    for (net, theta, f) in &fam {
        escape_family(&mut rep, *net, *theta, *f, 520, None);
    }
    // contested forks: the fork follows at a constant distance beyond 1500 unstable blocks
    let contested: Vec<(Network, u32, usize, usize)> = if quick {
        vec![(Network::Regtest, 2, 1, 830), (Network::Testnet, 2, 2, 830)]
    } else {
        vec![(Network::Regtest, 2, 1, 1000), (Network::Regtest, 2, 2, 1000), (Network::Regtest, 2, 3, 1000), (Network::Testnet, 1, 1, 1000),
             (Network::Testnet, 144, 143, 1300), (Network::Testnet, 144, 144, 1300), (Network::Regtest, 144, 143, 1300), (Network::Regtest, 600, 498, 1000), (Network::Mainnet, 2, 1, 800)]
    };
    // a short heavy branch (served) against a long light one: the depth rule must not move
    // the anchor onto the longer, lighter branch
    let storms: Vec<(Network, u32, usize, u128, usize)> = if quick {
        vec![(Network::Regtest, 2, 2, 290, 520), (Network::Testnet, 144, 3, 1000, 620)]
    } else {
        vec![(Network::Regtest, 2, 2, 290, 520), (Network::Testnet, 144, 3, 1000, 620), (Network::Regtest, 600, 2, 290, 520), (Network::Testnet, 1, 1, 5000, 700), (Network::Regtest, 144, 5, 100, 450)]
    };
    for (net, theta, f, fd, max_len) in &storms {
        escape_family_weighted(&mut rep, *net, *theta, *f, *fd, *max_len, None);
    }
    rep.floor("escape_judgements_with_the_heaviest_branch_shorter_than_the_longest", 300);
    for (net, theta, lead, max_len) in &contested {
        escape_family(&mut rep, *net, *theta, 0, *max_len, Some(*lead));
    }
    rep.parts.push(json!({"part": "depth-escape family", "runs": fam.len(), "main_branch_up_to": 520,
        "contested_runs (net, theta, constant lead, main branch up to)": contested.iter().map(|c| json!([c.0.to_string(), c.1, c.2, c.3])).collect::<Vec<_>>(),
        "wall_s": t0.elapsed().as_secs_f64()}));
    rep.rule = "TREE histories (block deliveries on any live block with difficulty from D, unsliced ingestion opportunities, set_config threshold changes) on three networks, with history monitors for the six finality clauses; plus the depth-escape family (heavy anchor, main branch grown block by block to 520, competing branch of length f; and a contested variant where the competing branch follows at a constant distance until the tree holds more than 1500 unstable blocks)".into();
    rep.bounds = json!({"tier": tier});
    rep.assume("depth escape judged only where 'runner-up' is unambiguous (one competing branch); exact-half rounding accepts either integer");
    rep.assume("trees that are both deep (hundreds of blocks) and wide are reached only by the escape family");
    rep.floor("anchor_advances", 100);
    rep.floor("advances_discarding_siblings", 10);
    rep.floor("states_heavy_child_with_insufficient_lead", 10);
    rep.floor("threshold_changes_flipping_stability", 5);
    rep.floor("ingestion_opportunities_checked", 100);
    rep.floor("escape_firings", 2);
    rep.floor("escape_judgements_beyond_1500_unstable_blocks", 100);
    rep.finish()
}

//! C17 — the watchdog changes API access only on a quorum of agreeing explorers.
use crate::engine::Out;
use crate::report::Report;
use crate::util::{fp64, guarded};
use ic_btc_interface::Flag;
use serde_json::json;
use std::collections::HashSet;
use watchdog::verif_hooks as wd;
use watchdog::verif_hooks::{BlockInfo, Config, HeightStatus};

#[derive(Clone, Copy, Debug, PartialEq, Eq)]
pub enum Decision {
    NoAction,
    Enable,
    Disable,
}

/// The statement, independently: median of the heights (mean of the two middle values,
/// rounded down, for an even count); quorum = heights within [median - behind, median +
/// ahead]; enabled iff the canister height lies in that band.
pub fn ref_decision(heights: &[u64], canister: Option<u64>, min_explorers: u64, behind: u64, ahead: u64) -> Decision {
    let Some(c) = canister else { return Decision::NoAction };
    if heights.is_empty() || (heights.len() as u64) < min_explorers {
        return Decision::NoAction;
    }
    let mut v = heights.to_vec();
    v.sort();
    let n = v.len();
    let median: u128 = if n % 2 == 1 {
        v[n / 2] as u128
    } else {
        (v[n / 2 - 1] as u128 + v[n / 2] as u128) / 2
    };
    let lo = median.saturating_sub(behind as u128);
    let hi = median + ahead as u128;
    let agreeing = v.iter().filter(|h| (**h as u128) >= lo && (**h as u128) <= hi).count() as u64;
    if agreeing < min_explorers {
        return Decision::NoAction;
    }
    if (c as u128) >= lo && (c as u128) <= hi {
        Decision::Enable
    } else {
        Decision::Disable
    }
}

fn observed(cfg: &Config, canister: Option<u64>, results: &[Option<u64>]) -> Result<(Decision, HeightStatus), String> {
    let explorers: Vec<BlockInfo> = cfg
        .explorers
        .iter()
        .zip(results.iter())
        .map(|(p, h)| BlockInfo {
            provider: p.clone(),
            height: *h,
        })
        .collect();
    let cfg = cfg.clone();
    guarded(move || {
        let (status, target) = wd::decide(canister, explorers, cfg);
        let d = match target {
            None => Decision::NoAction,
            Some(Flag::Enabled) => Decision::Enable,
            Some(Flag::Disabled) => Decision::Disable,
        };
        (d, status.height_status)
    })
}

/// All multisets of size `n` over `symbols` (as sorted index vectors).
fn multisets(n: usize, k: usize) -> Vec<Vec<usize>> {
    fn rec(n: usize, k: usize, start: usize, cur: &mut Vec<usize>, out: &mut Vec<Vec<usize>>) {
        if cur.len() == n {
            out.push(cur.clone());
            return;
        }
        for s in start..k {
            cur.push(s);
            rec(n, k, s, cur, out);
            cur.pop();
        }
    }
    let mut out = vec![];
    rec(n, k, 0, &mut vec![], &mut out);
    out
}

fn permutations(v: &[usize]) -> Vec<Vec<usize>> {
    if v.len() <= 1 {
        return vec![v.to_vec()];
    }
    let mut out: HashSet<Vec<usize>> = HashSet::new();
    for i in 0..v.len() {
        let mut rest = v.to_vec();
        let x = rest.remove(i);
        for mut p in permutations(&rest) {
            p.insert(0, x);
            out.insert(p);
        }
    }
    out.into_iter().collect()
}

fn orders(ms: &[usize]) -> Vec<Vec<usize>> {
    if ms.len() <= 4 {
        permutations(ms)
    } else {
        // all rotations and the reversal
        let mut out: HashSet<Vec<usize>> = HashSet::new();
        for r in 0..ms.len() {
            let mut v = ms.to_vec();
            v.rotate_left(r);
            out.insert(v.clone());
            v.reverse();
            out.insert(v);
        }
        out.into_iter().collect()
    }
}

fn decision_function(out: &mut Out, quick: bool) {
    let m: u64 = 800_000;
    for target in wd::ALL_CANISTERS {
        wd::reset(target);
        let cfg = wd::config();
        let e = cfg.explorers.len();
        let behind = cfg.blocks_behind_threshold;
        let ahead = cfg.blocks_ahead_threshold;
        // value symbols around the base height: every value of the band +- 1 for small
        // bands, the boundary values for the wide testnet band
        let mut values: Vec<Option<u64>> = vec![None];
        if behind <= 4 {
            for d in -(behind as i64 + 1)..=(ahead as i64 + 1) {
                values.push(Some((m as i64 + d) as u64));
            }
        } else {
            for d in [-(behind as i64) - 1, -(behind as i64), -1, 0, 1, ahead as i64, ahead as i64 + 1] {
                values.push(Some((m as i64 + d) as u64));
            }
        }
        let mut canisters: Vec<Option<u64>> = vec![None];
        if behind <= 4 {
            for d in -(2 * behind as i64 + 3)..=(2 * ahead as i64 + 3) {
                canisters.push(Some((m as i64 + d) as u64));
            }
        } else {
            for d in [-(2 * behind as i64) - 2, -(behind as i64) - 1, -(behind as i64), -1, 0, 1, ahead as i64, ahead as i64 + 1, 2 * ahead as i64 + 2] {
                canisters.push(Some((m as i64 + d) as u64));
            }
        }
        let max_size = if quick { e.min(5) } else { e };
        for size in 0..=max_size {
            for ms in multisets(size, values.len()) {
                // pad with failures up to the number of configured explorers
                let mut padded = ms.clone();
                while padded.len() < e {
                    padded.push(0); // index 0 = failed
                }
                let heights: Vec<u64> = ms.iter().filter_map(|i| values[*i]).collect();
                let ords = orders(&padded);
                for c in &canisters {
                    let want = ref_decision(&heights, *c, cfg.min_explorers, behind, ahead);
                    let mut seen: Option<Decision> = None;
                    for o in &ords {
                        let results: Vec<Option<u64>> = o.iter().map(|i| values[*i]).collect();
                        out.states += 1;
                        let ctx = json!({"family": "decision", "target": format!("{:?}", target), "explorer_results": results, "canister_height": c});
                        match observed(&cfg, *c, &results) {
                            Err(p) => {
                                out.set_history(ctx);
                                out.violation("decision-trap", None, json!({"panic": p}));
                            }
                            Ok((d, _status)) => {
                                if d != want {
                                    out.set_history(ctx);
                                    out.violation("decision", None, json!({"expected": format!("{:?}", want), "observed": format!("{:?}", d),
                                        "min_explorers": cfg.min_explorers, "behind": behind, "ahead": ahead}));
                                } else {
                                    out.count(&format!("decisions: {:?}", d));
                                }
                                if let Some(s) = seen {
                                    if s != d {
                                        out.violation("order-dependence", None, json!({"multiset": heights}));
                                    }
                                }
                                seen = Some(d);
                            }
                        }
                    }
                    out.outcomes.insert(fp64(format!("{:?}{:?}{:?}", target, heights, c).as_bytes()));
                    if heights.len() % 2 == 0 && heights.len() >= 2 && want != Decision::NoAction {
                        out.count("even_sized_medians_with_action");
                    }
                    if let Some(cv) = c {
                        if !heights.is_empty() {
                            let mut v = heights.clone();
                            v.sort();
                            let med = if v.len() % 2 == 1 { v[v.len() / 2] } else { (v[v.len() / 2 - 1] + v[v.len() / 2]) / 2 };
                            if *cv + behind == med && want == Decision::Enable {
                                out.count("boundary_hits_behind_side");
                            }
                            if *cv == med + ahead && want == Decision::Enable {
                                out.count("boundary_hits_ahead_side");
                            }
                        }
                    }
                }
            }
        }
    }
}

fn body_for(provider: &str, h: u64) -> Vec<u8> {
    let s = if provider.contains("bitcore") {
        format!("[{{\"height\":{},\"hash\":\"x\"}}]", h)
    } else if provider.contains("blockchair") {
        format!("{{\"data\":{{\"best_block_height\":{},\"blocks\":1}}}}", h)
    } else if provider.contains("blockcypher") {
        format!("{{\"name\":\"BTC.main\",\"height\":{}}}", h)
    } else {
        format!("{}", h)
    };
    s.into_bytes()
}

/// Rounds through the real fetch -> store -> health -> target path with mocked HTTP.
fn rounds(out: &mut Out, quick: bool) {
    let m: u64 = 800_000;
    for target in wd::ALL_CANISTERS {
        wd::reset(target);
        let cfg = wd::config();
        let e = cfg.explorers.len();
        // per explorer and round: 0 = height h (in band), 1 = height h' (far off), 2 = failure
        let far = m + cfg.blocks_ahead_threshold + 50;
        let answers = 3usize;
        let combos = |n: usize| -> Vec<Vec<usize>> {
            let mut all = vec![vec![]];
            for _ in 0..n {
                let mut next = vec![];
                for a in &all {
                    for x in 0..answers {
                        let mut b: Vec<usize> = a.clone();
                        b.push(x);
                        next.push(b);
                    }
                }
                all = next;
            }
            all
        };
        let per_round = combos(e);
        let r1s: Vec<&Vec<usize>> = if quick && per_round.len() > 81 {
            // the structurally different first rounds: all-ok, all-far, all-fail, mixed
            vec![&per_round[0], &per_round[per_round.len() - 1], &per_round[per_round.len() / 2], &per_round[1], &per_round[per_round.len() / 3]]
        } else {
            per_round.iter().collect()
        };
        for r1 in r1s {
            for r2 in &per_round {
                for canister_heights in [(Some(m), Some(m)), (Some(m), None), (None, Some(m)), (Some(m), Some(far))] {
                    wd::reset(target);
                    let mut last_results: Vec<Option<u64>> = vec![];
                    let mut last_c = None;
                    for (round, (ans, ch)) in [(r1, canister_heights.0), (r2, canister_heights.1)].iter().enumerate() {
                        for (i, p) in cfg.explorers.iter().enumerate() {
                            let outcome = match ans[i] {
                                0 => Some((200u64, body_for(p, m + (i as u64 % 2)))),
                                1 => Some((200u64, body_for(p, far))),
                                _ => {
                                    // three kinds of failure
                                    match (i + round) % 3 {
                                        0 => None,
                                        1 => Some((503u64, b"oops".to_vec())),
                                        _ => Some((200u64, b"<html>".to_vec())),
                                    }
                                }
                            };
                            assert!(wd::mock_provider(p, outcome));
                        }
                        wd::set_canister_height(*ch);
                        let r = guarded(|| futures::executor::block_on(wd::fetch_block_height()));
                        if let Err(p) = r {
                            out.violation("fetch-trap", None, json!({"panic": p}));
                        }
                        last_results = cfg
                            .explorers
                            .iter()
                            .enumerate()
                            .map(|(i, _)| match ans[i] {
                                0 => Some(m + (i as u64 % 2)),
                                1 => Some(far),
                                _ => None,
                            })
                            .collect();
                        last_c = *ch;
                    }
                    out.states += 1;
                    out.transitions += 2;
                    let heights: Vec<u64> = last_results.iter().filter_map(|x| *x).collect();
                    let want = ref_decision(&heights, last_c, cfg.min_explorers, cfg.blocks_behind_threshold, cfg.blocks_ahead_threshold);
                    let got = match guarded(wd::api_access_target) {
                        Ok(None) => Decision::NoAction,
                        Ok(Some(Flag::Enabled)) => Decision::Enable,
                        Ok(Some(Flag::Disabled)) => Decision::Disable,
                        Err(p) => {
                            out.violation("target-trap", None, json!({"panic": p}));
                            continue;
                        }
                    };
                    if got != want {
                        out.set_history(json!({"family": "rounds", "target": format!("{:?}", target), "round1": r1, "round2": r2,
                            "canister_heights": [canister_heights.0, canister_heights.1]}));
                        out.violation(
                            "decision-after-two-rounds",
                            None,
                            json!({"expected_from_round_2_alone": format!("{:?}", want), "observed": format!("{:?}", got),
                                   "round2_heights": last_results}),
                        );
                    } else {
                        out.count("two_round_histories_checked");
                        if r1 != r2 {
                            out.count("two_round_histories_with_changed_answers");
                        }
                    }
                }
            }
        }
    }
}

pub fn run(tier: &str) -> i32 {
    let mut rep = Report::new("C17", tier, "model_checking");
    let quick = tier == "quick";
    let mut out = Out::default();
    decision_function(&mut out, quick);
    rounds(&mut out, quick);
    out.leaves = out.counters.get("two_round_histories_checked").copied().unwrap_or(0);
    out.distinct = out.outcomes.clone();
    out.samples.push(json!({"family": "decision", "target": "BitcoinMainnet", "explorer_results": [800000, 800001, 799998, null, null, null],
        "canister_height": 799998, "expected": "Enable (median 800000, quorum 3 within +-2, canister at median-2)"}));
    out.samples.push(json!({"family": "rounds", "target": "DogecoinMainnet", "round1": [0, 0, 0, 0], "round2": [2, 2, 0, 1],
        "expected": "NoAction: stale heights of round 1 must not be reused"}));
    rep.out.merge(out);
    rep.evaluations = rep.out.states;
    rep.rule = "five target configurations x all multisets (size <= number of explorers) of explorer results over {every height of the band +- 1} U {failed} x canister height in {unknown} U [band +- 3] x all permutations (size <= 4) / all rotations and the reversal (larger) through the real decision function; and all two-round histories in which each explorer independently answers {in-band height, far-off height, failure (reject / HTTP 503 / garbage body)} through the real fetch -> store -> health -> target path with mocked HTTP outcalls".into();
    rep.bounds = json!({"tier": tier});
    rep.assume("heights in [thresholds + 1, 2^62]: the code converts with `as i64` and averages two u64 without widening, beyond that the statement's arithmetic is not defined in the implementation's own types");
    rep.assume("median of an even number of heights = mean of the two middle values rounded down");
    rep.assume("the inter-canister calls (get_config / set_config of the monitored canister) and the timer are not executed natively; the canister height is injected where fetch_canister_height would obtain it");
    rep.floor("decisions: Enable", 1000);
    rep.floor("decisions: Disable", 1000);
    rep.floor("decisions: NoAction", 1000);
    rep.floor("boundary_hits_behind_side", 50);
    rep.floor("boundary_hits_ahead_side", 50);
    rep.floor("even_sized_medians_with_action", 100);
    rep.floor("two_round_histories_with_changed_answers", 500);
    rep.finish()
}

//! C15 — fee percentiles are nearest-rank percentiles of recent best-chain fees.
use crate::chain::*;
use crate::engine::{explore, Limits, Model, Out};
use crate::factory::{self, *};
use crate::props::c10::{absorb, feed, work_pending};
use crate::refmodel::{RefModel, H32};
use crate::report::Report;
use crate::util::fp64;
use crate::world::{World, WorldCfg};
use serde::Serialize;
use serde_json::{json, Value};

/// Reference nearest-rank percentiles (index 0 = minimum, 100 = maximum).
pub fn ref_percentiles(values: &[u64]) -> Vec<u64> {
    if values.is_empty() {
        return vec![];
    }
    let mut v = values.to_vec();
    v.sort();
    let n = v.len() as u128;
    (0..=100u128)
        .map(|p| {
            let rank = (p * n).div_ceil(100); // ceil(p/100 * n)
            let idx = if rank == 0 { 0 } else { rank - 1 };
            v[idx as usize]
        })
        .collect()
}

/// Fee rates (millisatoshi per vbyte, rounded down) of the non-coinbase transactions of
/// `chain` (anchor..=tip), newest block first, in block order, per block.
pub fn ref_fee_rates_by_block(refm: &RefModel, chain: &[H32]) -> Vec<Vec<u64>> {
    let mut out = vec![];
    for h in chain.iter().rev() {
        let b = refm.get(h);
        let ledger = if b.hash == refm.genesis {
            Default::default()
        } else {
            refm.ledger_at(&b.parent).unwrap_or_default()
        };
        let mut known: std::collections::BTreeMap<(H32, u32), u64> =
            ledger.iter().map(|(k, e)| (*k, e.value)).collect();
        let mut rates = vec![];
        for tx in &b.txs {
            if !tx.coinbase {
                let input: Option<u64> = tx.inputs.iter().map(|i| known.get(i).copied()).sum();
                let output: u64 = tx.outputs.iter().map(|o| o.value).sum();
                if let Some(input) = input {
                    if input >= output && tx.vsize > 0 {
                        rates.push((1000u128 * (input - output) as u128 / tx.vsize as u128) as u64);
                    }
                }
            }
            for (i, o) in tx.outputs.iter().enumerate() {
                known.insert((tx.txid, i as u32), o.value);
            }
        }
        out.push(rates);
    }
    out
}

/// The acceptable percentile vectors for a chain (two readings inside the cut block).
pub fn ref_answers(refm: &RefModel, chain: &[H32], limit: usize) -> Vec<Vec<u64>> {
    let by_block = ref_fee_rates_by_block(refm, chain);
    let mut first_k: Vec<u64> = vec![];
    let mut last_k: Vec<u64> = vec![];
    for rates in &by_block {
        if first_k.len() >= limit {
            break;
        }
        let room = limit - first_k.len();
        if rates.len() <= room {
            first_k.extend(rates);
            last_k.extend(rates);
        } else {
            first_k.extend(&rates[..room]);
            last_k.extend(&rates[rates.len() - room..]);
        }
    }
    let a = ref_percentiles(&first_k);
    let b = ref_percentiles(&last_k);
    if a == b {
        vec![a]
    } else {
        vec![a, b]
    }
}

#[derive(Clone, Debug, Serialize, PartialEq, Eq)]
pub enum FEv {
    Blk { parent: usize, body: u8 },
    /// the same reply with an undecodable item behind the block: the block is admitted, the
    /// rest is dropped with an error - the new tip is observed all the same
    BlkThenGarbage { parent: usize, body: u8 },
    Upgrade,
    /// an update call to get_current_fee_percentiles (an observation point in lazy mode)
    Query,
}

pub struct C15Model {
    pub theta: u32,
    pub lazy: bool,
    pub max_blocks: usize,
    pub bodies: Vec<u8>,
    pub max_upgrades: usize,
    pub max_queries: usize,
}

pub struct FCtx {
    pub w: World,
    /// reference cache: (tip at computation time, acceptable values)
    pub cache: Option<(H32, Vec<Vec<u64>>)>,
    pub dead: bool,
    pub tips: Vec<H32>,
}

impl C15Model {
    /// An observation point: the reference recomputes iff the tip differs from the cached one.
    fn observe_point(&self, s: &mut FCtx) -> Vec<Vec<u64>> {
        let anchor = s.w.anchor();
        let chain = s.w.refm.best_chain(&anchor);
        let tip = *chain.last().unwrap();
        if let Some((t, v)) = &s.cache {
            if *t == tip {
                return v.clone();
            }
        }
        let by_block = ref_fee_rates_by_block(&s.w.refm, &chain);
        let empty = by_block.iter().all(|b| b.is_empty());
        if empty {
            if let Some((_, v)) = &s.cache {
                return v.clone(); // no fee transaction: the previous answer is kept
            }
        }
        let ans = ref_answers(&s.w.refm, &chain, 10_000);
        s.cache = Some((tip, ans.clone()));
        ans
    }

    fn compare(&self, s: &mut FCtx, expected: &[Vec<u64>], out: &mut Out, what: &str) {
        match s.w.fee_percentiles() {
            Err(p) => out.violation("fee-endpoint-trap", None, json!({"panic": p, "at": what})),
            Ok(v) => {
                let shape_ok = v.is_empty() || (v.len() == 101 && v.windows(2).all(|w| w[0] <= w[1]));
                if !shape_ok {
                    out.violation("shape", None, json!({"len": v.len(), "at": what}));
                }
                if !expected.iter().any(|e| *e == v) {
                    out.violation(
                        "percentile-values",
                        None,
                        json!({"at": what, "lazy": self.lazy,
                               "expected_min_max": expected.first().map(|e| (e.first().copied(), e.last().copied())),
                               "observed_min_max": (v.first().copied(), v.last().copied()),
                               "expected_len": expected.first().map(|e| e.len()), "observed_len": v.len()}),
                    );
                } else {
                    out.count("answers_checked");
                    if !v.is_empty() {
                        out.count("nonempty_answers_checked");
                    }
                    out.outcomes.insert(fp64(&v.iter().flat_map(|x| x.to_le_bytes()).collect::<Vec<u8>>()));
                }
            }
        }
    }
}

impl Model for C15Model {
    type S = FCtx;
    type Ev = FEv;

    fn init(&self) -> FCtx {
        let mut cfg = WorldCfg::regtest(self.theta);
        cfg.lazy_fees = self.lazy;
        FCtx {
            w: World::new(cfg),
            cache: None,
            dead: false,
            tips: vec![],
        }
    }

    fn enabled(&self, s: &FCtx, hist: &[FEv]) -> Vec<FEv> {
        if s.dead {
            return vec![];
        }
        let mut evs = vec![];
        let nb = hist.iter().filter(|e| matches!(e, FEv::Blk { .. } | FEv::BlkThenGarbage { .. })).count();
        if nb < self.max_blocks {
            for p in live_ids(&s.w) {
                for b in &self.bodies {
                    if build_body(&s.w, &s.w.ids[p], *b, s.w.ids.len()).is_some() {
                        evs.push(FEv::Blk { parent: p, body: *b });
                        // eager mode, once per history
                        if !self.lazy && !hist.iter().any(|e| matches!(e, FEv::BlkThenGarbage { .. })) {
                            evs.push(FEv::BlkThenGarbage { parent: p, body: *b });
                        }
                    }
                }
            }
        }
        let nu = hist.iter().filter(|e| matches!(e, FEv::Upgrade)).count();
        if nu < self.max_upgrades && !matches!(hist.last(), Some(FEv::Upgrade)) && !hist.is_empty() {
            evs.push(FEv::Upgrade);
        }
        let nq = hist.iter().filter(|e| matches!(e, FEv::Query)).count();
        if self.lazy && nq < self.max_queries && !matches!(hist.last(), Some(FEv::Query)) {
            evs.push(FEv::Query);
        }
        evs
    }

    fn apply(&self, s: &mut FCtx, ev: &FEv, check: bool, out: &mut Out) -> bool {
        match ev {
            FEv::Blk { parent, body } | FEv::BlkThenGarbage { parent, body } => {
                let garbage = matches!(ev, FEv::BlkThenGarbage { .. });
                // ingestion pending from earlier rounds runs first (as the heartbeat does);
                // the block is built against the tree the source is asked about
                let mut guard = 0;
                while work_pending(&s.w) && guard < 50 {
                    if s.w.heartbeat_with(None, None).is_err() {
                        s.dead = true;
                        return false;
                    }
                    guard += 1;
                }
                if !s.w.tree_hashes().contains(&s.w.ids[*parent]) {
                    return false; // the parent was discarded or stabilised meanwhile
                }
                let Some(block) = build_block(&s.w, *parent, *body) else {
                    return false;
                };
                let mut items = vec![factory::block_bytes(&block)];
                if garbage {
                    items.push(vec![0xde, 0xad]);
                    if check {
                        out.count("replies_with_an_undecodable_item_behind_the_block");
                    }
                }
                if let Err(p) = feed(&mut s.w, items, vec![]) {
                    s.dead = true;
                    if check {
                        out.violation("heartbeat-trap", None, json!({"panic": p}));
                    }
                    return false;
                }
                let before = s.w.ids.len();
                absorb(&mut s.w, &[block]);
                if s.w.ids.len() == before {
                    if check {
                        out.violation("machinery:valid-block-not-accepted", None, json!({"event": ev}));
                    }
                    s.dead = true;
                    return false;
                }
                // eager mode: the processing heartbeat ends with the fee computation
                if !self.lazy {
                    let _ = self.observe_point(s);
                }
                {
                    // reorgs: the new tip does not descend from the previous one
                    let tip = *s.w.refm.best_chain(&s.w.anchor()).last().unwrap();
                    if let Some(prev) = s.tips.last() {
                        if *prev != tip && !s.w.refm.chain_to(&tip).contains(prev) {
                            s.tips.push(tip);
                            if check && s.tips.len() >= 3 {
                                out.count("tip_changes_back_and_forth");
                            }
                        } else if *prev != tip {
                            *s.tips.last_mut().unwrap() = tip;
                        }
                    } else {
                        s.tips.push(tip);
                    }
                }
                true
            }
            FEv::Upgrade => {
                if let Err(p) = s.w.upgrade(None) {
                    s.dead = true;
                    if check {
                        out.violation("upgrade-trap", None, json!({"panic": p}));
                    }
                    return false;
                }
                if check {
                    out.count("upgrades");
                }
                true
            }
            FEv::Query => {
                let exp = self.observe_point(s);
                if check {
                    self.compare(s, &exp, out, "query event");
                } else {
                    let _ = s.w.fee_percentiles();
                }
                true
            }
        }
    }

    fn check(&self, s: &mut FCtx, hist: &[FEv], out: &mut Out) {
        out.distinct.insert(crate::world::full_fingerprint() as u64);
        let anchor = s.w.anchor();
        let chain = s.w.refm.best_chain(&anchor);
        let by_block = ref_fee_rates_by_block(&s.w.refm, &chain);
        if by_block.iter().filter(|b| !b.is_empty()).count() >= 2 {
            out.count("states_with_fee_transactions_in_two_blocks");
        }
        // forks carrying different fees
        let paths = s.w.refm.leaf_paths(&anchor);
        if paths.len() >= 2 {
            let sets: std::collections::HashSet<Vec<Vec<u64>>> =
                paths.iter().map(|p| ref_fee_rates_by_block(&s.w.refm, p)).collect();
            if sets.len() >= 2 {
                out.count("states_where_forks_carry_different_fees");
            }
        }
        if hist.iter().any(|e| matches!(e, FEv::Upgrade))
            && by_block.iter().all(|b| b.is_empty())
            && s.cache.as_ref().map_or(false, |(_, v)| v.iter().any(|x| !x.is_empty()))
        {
            // the answer predates the upgrade and cannot be recomputed from the unstable blocks
            out.count("states_after_upgrade_serving_an_answer_no_longer_derivable");
        }
        if hist.iter().any(|e| matches!(e, FEv::Upgrade)) && matches!(hist.last(), Some(FEv::Blk { .. })) {
            out.count("states_recomputed_after_upgrade_and_new_block");
        }
        if !self.lazy {
            // eager mode: the answer is the one computed by the last processing heartbeat;
            // asking does not change anything
            let exp = match &s.cache {
                Some((_, v)) => v.clone(),
                None => vec![vec![]],
            };
            // the reference cache is only created at the first observation point
            if !hist.iter().any(|e| matches!(e, FEv::Blk { .. })) {
                return;
            }
            self.compare(s, &exp, out, "eager state");
        }
    }

    fn key(&self, s: &FCtx, hist: &[FEv]) -> Option<u128> {
        let mut b = crate::world::full_fingerprint().to_le_bytes().to_vec();
        b.push(hist.iter().filter(|e| matches!(e, FEv::Blk { .. })).count() as u8);
        b.push(hist.iter().filter(|e| matches!(e, FEv::Upgrade)).count() as u8);
        b.push(hist.iter().filter(|e| matches!(e, FEv::Query)).count() as u8);
        b.push(matches!(hist.last(), Some(FEv::Upgrade)) as u8);
        b.push(matches!(hist.last(), Some(FEv::Query)) as u8);
        b.push(s.w.ids.len() as u8);
        if let Some((t, v)) = &s.cache {
            b.extend(t);
            for x in v.iter().flatten() {
                b.extend(x.to_le_bytes());
            }
        }
        let h = crate::util::sha256(&b);
        Some(u128::from_le_bytes(h[..16].try_into().unwrap()))
    }

    fn sample(&self, s: &mut FCtx, hist: &[FEv]) -> Value {
        json!({"history": hist, "lazy": self.lazy, "final_answer_min_max": s.w.fee_percentiles().ok().map(|v| (v.first().copied(), v.last().copied()))})
    }
}

/// E3: the percentile routine on its own.
fn percentile_function(rep: &mut Report, quick: bool) {
    let mut out = Out::default();
    let mut ns: Vec<usize> = (1..=if quick { 220 } else { 400 }).collect();
    ns.extend([9_999, 10_000, 10_001]);
    for n in ns {
        let pats: Vec<Vec<u64>> = vec![
            vec![7; n],
            (1..=n as u64).collect(),
            (0..n as u64).map(|i| if i % 2 == 0 { 3 } else { 1_000_000 }).collect(),
            (1..=n as u64).rev().collect(),
            (0..n as u64).map(|i| (i * 7919) % 1013).collect(),
        ];
        for p in pats {
            let got = ic_btc_canister::verif_hooks::percentiles(p.clone());
            let want = ref_percentiles(&p);
            out.states += 1;
            if got != want {
                out.set_history(json!({"family": "percentile function", "n": n}));
                out.violation("percentile-function", None, json!({"n": n, "first_values": &p[..p.len().min(5)]}));
            } else {
                out.count("percentile_vectors_checked");
            }
        }
    }
    if ic_btc_canister::verif_hooks::percentiles(vec![]) != Vec::<u64>::new() {
        out.violation("percentile-function-empty", None, json!({}));
    }
    rep.out.merge(out);
}

/// Boundary family around the 10,000-transaction window: the oldest unstable block carries
/// `old` expensive transactions, `newer` cheap transactions follow in `blocks` newer blocks,
/// so that exactly 10,000 - newer (if positive) of the expensive ones fall inside the window.
fn window_family(rep: &mut Report, old: usize, newer: usize, blocks: usize) {
    let mut out = Out::default();
    let mut w = World::new(WorldCfg::regtest(1000));
    let g = w.refm.genesis;
    let total = old + newer;
    let outs: Vec<(u64, bitcoin::ScriptBuf)> = (0..total).map(|_| (1_000_000u64, w.book.script(A))).collect();
    let p = w.extend(&g, vec![coinbase_tx(1, outs)], 1);
    let cbid = w.refm.get(&p).txs[0].txid;
    let mut k = 0usize;
    // the old block: expensive transactions (fee 500,000 each)
    let mut txs = vec![coinbase_tx(9, vec![(1, w.book.script(B))])];
    for _ in 0..old {
        txs.push(spend_tx(&[(cbid, k as u32)], vec![(500_000, w.book.script(C))], (k % 2) as usize, 0x31));
        k += 1;
    }
    let mut tip = w.extend(&p, txs, 1);
    let per = newer.div_ceil(blocks.max(1));
    let mut left = newer;
    for b in 0..blocks {
        let mut txs = vec![coinbase_tx(10 + b as u64, vec![(1, w.book.script(B))])];
        for _ in 0..per.min(left) {
            // cheap, slightly varying fees
            let fee = 100 + (k as u64 % 7);
            txs.push(spend_tx(&[(cbid, k as u32)], vec![(1_000_000 - fee, w.book.script(C))], (k % 2) as usize, 0x33));
            k += 1;
        }
        left -= per.min(left);
        tip = w.extend(&tip, txs, 1);
    }
    let _ = tip;
    out.set_history(json!({"family": "window", "expensive_in_oldest_block": old, "cheap_in_newer_blocks": newer, "newer_blocks": blocks}));
    let chain = w.refm.best_chain(&w.anchor());
    let exp = ref_answers(&w.refm, &chain, 10_000);
    match w.fee_percentiles() {
        Err(p) => out.violation("fee-endpoint-trap", None, json!({"panic": p})),
        Ok(v) => {
            if !exp.iter().any(|e| *e == v) {
                out.violation(
                    "percentile-values-window",
                    None,
                    json!({"expensive_in_oldest_block": old, "cheap_in_newer_blocks": newer,
                           "observed_p0_p50_p99_p100": (v.first(), v.get(50), v.get(99), v.last()),
                           "expected_p0_p50_p99_p100": exp.first().map(|e| (e.first().copied(), e.get(50).copied(), e.get(99).copied(), e.last().copied()))}),
                );
            } else {
                out.count("window_family_answers_checked");
                if newer < 10_000 && old + newer > 10_000 {
                    out.count("window_cuts_inside_a_block");
                }
            }
        }
    }
    out.states += 1;
    out.leaves += 1;
    rep.out.merge(out);
}

pub fn run(tier: &str) -> i32 {
    let mut rep = Report::new("C15", tier, "model_checking");
    let quick = tier == "quick";
    let bodies = vec![BODY_CB, BODY_FEE_SEGWIT, BODY_FEE_PAIR, BODY_FEE_ZERO, BODY_FEE_OVERSPEND];
    // (theta, lazy, n, upgrades, queries)
    let parts: Vec<(u32, bool, usize, usize, usize)> = if quick {
        vec![(2, false, 4, 1, 0), (2, true, 4, 1, 2), (6, false, 4, 0, 0)]
    } else {
        vec![(2, false, 5, 1, 0), (2, true, 5, 1, 3), (3, false, 5, 1, 0), (6, false, 5, 1, 0), (6, true, 5, 1, 2)]
    };
    for (theta, lazy, n, ups, qs) in parts {
        let m = C15Model {
            theta,
            lazy,
            max_blocks: n,
            bodies: bodies.clone(),
            max_upgrades: ups,
            max_queries: qs,
        };
        let e = explore(&m, &Limits::new(2, if quick { 300 } else { 6000 }));
        rep.absorb(
            &format!("FEES theta={} lazy={} n={} upgrades<={} queries<={}", theta, lazy, n, ups, qs),
            e,
            json!({"threshold": theta, "lazy": lazy, "max_blocks": n, "bodies": bodies.iter().map(|b| body_name(*b)).collect::<Vec<_>>(),
                   "max_upgrades": ups, "max_query_events": qs}),
        );
    }
    percentile_function(&mut rep, quick);
    // (expensive transactions in the oldest block, cheap ones in newer blocks, newer blocks)
    let fam: Vec<(usize, usize, usize)> = if quick {
        vec![(150, 9_960, 4)]
    } else {
        vec![(150, 9_960, 4), (150, 9_850, 3), (150, 10_000, 2), (150, 9_999, 1), (3, 9_999, 2), (150, 9_849, 5), (5_000, 5_001, 1)]
    };
    for (a, n, b) in &fam {
        window_family(&mut rep, *a, *n, *b);
    }
    rep.parts.push(json!({"part": "10,000-transaction window family", "runs": fam}));
    rep.rule = "histories of <= n blocks delivered through the real heartbeat (so that the eager computation runs where production runs it), each block with a fee body (segwit fee 1000, legacy fee 7 + segwit fee 250000, fee 0, a transaction whose outputs exceed its inputs, none) on any live block (forks with different fees, reorgs back and forth), upgrades, and query events in lazy mode; the answer is compared with a stateful reference (computed when a new tip is first observed, kept otherwise, previous answer kept when the chain has no fee transaction); plus the percentile routine on all n in [1,400] U {9999,10000,10001} x 5 value patterns and the 10,000-transaction window family".into();
    rep.bounds = json!({"tier": tier});
    rep.assume("inside the block where the 10,000 window is cut both the first-k and the last-k reading are accepted");
    rep.assume("regtest only: blocks must be mined to pass through the heartbeat");
    rep.floor("nonempty_answers_checked", 1000);
    rep.floor("states_where_forks_carry_different_fees", 100);
    rep.floor("tip_changes_back_and_forth", 5);
    rep.floor("states_recomputed_after_upgrade_and_new_block", 50);
    rep.floor("states_after_upgrade_serving_an_answer_no_longer_derivable", 5);
    rep.floor("percentile_vectors_checked", 1000);
    rep.floor("window_family_answers_checked", 1);
    rep.floor("window_cuts_inside_a_block", 1);
    rep.finish()
}

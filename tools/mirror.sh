#!/bin/bash
# Creates (or refreshes) a scratch mirror of the harness at /tmp/h2 that builds against a scratch
# worktree /tmp/repo2 of /repo's HEAD, so that seeded changes can be tried without touching /repo.
set -e
if [ ! -d /tmp/repo2 ]; then git -C /repo worktree add -q --detach /tmp/repo2 HEAD; fi
git -C /tmp/repo2 checkout -q --detach $(git -C /repo rev-parse HEAD); git -C /tmp/repo2 checkout -q -- .
mkdir -p /tmp/h2/harness /tmp/h2out
rsync -a --delete --exclude target /verif/harness/ /tmp/h2/harness/
sed -i 's#"/repo/#"/tmp/repo2/#g' /tmp/h2/harness/Cargo.toml
cp /verif/check /tmp/h2/check
echo mirror ready

#!/bin/bash
# usage: try_patch.sh <patch file> <check id> [<check id> ...] [-- tier]
# applies the patch to /repo's working tree, runs the quick (or given tier) checks, restores the tree
patch=$1; shift
tier=${TIER:-quick}
if ! git -C /repo diff --quiet; then echo "refusing: /repo working tree is not clean"; exit 3; fi
git -C /repo apply "$patch" || { echo "patch does not apply"; exit 3; }
for c in "$@"; do
  out=$(/verif/check $c $tier 2>&1); code=$?
  case $code in 1) v=DETECTED;; 0) v=MISSED;; *) v="EXIT$code";; esac
  echo "$(basename $(dirname $patch))/$(basename $patch) $c $tier $v $(echo "$out" | grep -o 'kind=[a-zA-Z0-9:_-]*' | sort | uniq -c | tr '\n' ' ')"
done
git -C /repo checkout -- .

#!/usr/bin/env python3
"""Regenerates /verif/MANIFEST.json from the table below (kept next to the checks)."""
import json, subprocess, os
HERE = os.path.dirname(os.path.dirname(os.path.abspath(__file__)))
MC = "model_checking"
EX = "exploration"
CHECKS = {
 "C01": dict(cat=MC, engine="E1",
   technique="explicit-state exploration of the real canister (exhaustive DFS over block-arrival histories with transaction bodies, duplicate detection on the complete logical state) with a brute-force ledger replay as oracle",
   text="Every state reachable by <= n blocks (n=4 quick, 5 thorough) over a menu of 8 transaction bodies (<= 2-3 non-default per history), all tree shapes and arrival orders, thresholds 1-3, three networks: every book address (P2PKH, P2SH, P2WPKH, P2WSH, P2TR, a colliding P2WPKH/P2WSH prefix pair) is queried with all pages followed (page sizes 1000 and 1/2) and compared, as a set with values and heights, with the ledger replayed from genesis to the named tip. Plus the real 1000-per-page limit on 999..2001 outputs, a tall-chain family (stable + unstable stretch of hundreds of blocks), and a part with sliced ingestion and one upgrade at any boundary (states in the middle of an ingestion, before and after an upgrade). Bech32 addresses are also queried in upper case.",
   note="domain: transaction-valid blocks; address<->script mapping and hashing shared with rust-bitcoin; order inside one height not compared",
   ref="DESIGN.md §6 C01"),
 "C02": dict(cat=MC, engine="E1",
   technique="explicit-state exploration of the real canister: exhaustive DFS over block-arrival histories (all tree shapes x arrival orders x difficulty assignments x thresholds) with a brute-force reference chain selection as oracle in every state",
   text="Every state reachable by <= n block deliveries (n=5-6 quick, 6-7 thorough; difficulty sets {1,2,3}, {1,2,5}, {1,4}; thresholds 1-3; regtest through full validation, mainnet/testnet through push) is visited on the real code and get_blockchain_info / unfiltered get_utxos / get_balance / get_block_headers are compared with the heaviest chain recomputed by brute force (all leaf paths, (sum difficulty, length), arrival tie-break). A fee-carrying part (lazy and eager fee mode, forks with different fees, reorgs) compares get_current_fee_percentiles with the reference percentiles of the heaviest chain; a tall family grows a long light branch (hundreds of blocks) next to a short heavy one and judges the served tip after every arrival; a LEDGER part judges the content of the unfiltered answer with the ledger oracle. Bounded exhaustive: nothing is claimed beyond the bound.",
   note="rust-bitcoin hashing/serialisation shared with the implementation; mock difficulty via feature mock_difficulty; ingestion unsliced in this check (sliced states belong to C07/C08)",
   ref="DESIGN.md §6 C02"),
 "C03": dict(cat=MC, engine="E1",
   technique="explicit-state exploration of the real canister with history monitors on every transition (six finality clauses) plus an exhaustively enumerated depth-escape family",
   text="All TREE histories (<= 4-5 quick, 5-7 thorough blocks; difficulties 1-3 and {1,3} nested forks whose longer branch is lighter; sliced ingestion; thresholds 1-3 incl. set_config changes mid-history; three networks) with monitors on every transition: stable height monotone, recorded stable blocks immutable and on the anchor chain, every anchor advance goes to the child that qualifies under the difficulty rule (recomputed from scratch), no qualifying child is left after an ingestion opportunity, the new anchor is the second block of the served chain, blocks disappear only with the advance and exactly the losers. Depth escape: heavy anchor, main branch grown to 520 blocks against forks of 0-5 blocks, and a contested variant where the competing branch follows at a constant distance until the tree holds 1600-2600 unstable blocks, and a weighted variant (short heavy branch against a long light one: the rule is about the child on the served chain); bound recomputed in exact rational arithmetic.",
   note="escape judged only where runner-up is unambiguous; wide-and-deep trees only via the family",
   ref="DESIGN.md §6 C03"),
 "C04": dict(cat=MC, engine="E1",
   technique="explicit-state exploration of the real canister; in every state all c in [1, L+2] x all addresses against the ledger at B(c) recomputed from the stability-count definition",
   text="LEDGER/TREE histories as C01 (equal and mixed difficulty); for every address and every c the named tip must be B(c) and the paged answer must equal the ledger at B(c); c > L must be refused with the explicit error. One part adds sliced ingestion and an upgrade at any boundary.",
   note="c=0 belongs to C01/C02", ref="DESIGN.md §6 C04"),
 "C05": dict(cat=MC, engine="E1",
   technique="explicit-state exploration of the real canister incl. states in the middle of sliced ingestion; differential oracle balance vs sum of paged UTXOs, error classes, query vs update variants",
   text="In every explored state (forks, the same transaction on two forks with a later spend, paused ingestion with budgets 1/2, after an upgrade at any boundary incl. between two slices), for every address and c in {none, 0..L+1}: get_balance == sum over all pages of get_utxos (page size 1000, and 1 and 2 through hook H3); ~45 malformed / foreign-network address strings must be refused by both with the same error class; update variants return what query variants return.",
   note="differential: needs no reference value", ref="DESIGN.md §6 C05"),
 "C07": dict(cat=MC, engine="E1",
   technique="explicit-state exploration of the real canister with sliced ingestion and upgrades; all (start,end) pairs per state against the reference chain; long-chain boundary family",
   text="TREE histories with ingestion budgets 1/2/unlimited (every pause point of the explored shapes) and upgrades; in every state all (start, end) up to tip+2 are compared header by header with the reference chain, errors with the documented ones; a 130/230/330-block family probes the 100-header cap and the stable boundary with and without a paused ingestion, also with more than 100 unstable blocks.",
   note="where two documented errors apply either is accepted", ref="DESIGN.md §6 C07"),
 "C08": dict(cat=MC, engine="E2",
   technique="exhaustive enumeration of all budget schedules (compositions of the slicing call sites) of a stabilising block, driven through the real heartbeat; state-equality across schedules and probe-equality against the pre-ingestion answers",
   text="For 7 block shapes (spends of stable outputs, same-block spend, non-address scripts, many addresses, several blocks per round, fork discarded by the advance) all 2^(m-1) sequences of per-round budgets (m <= 14 quick, 18 thorough) are run through heartbeat() with a source that always offers a further block: no fetch while ingesting, every pause position reaches one identical state whatever the schedule, all probe answers at pauses equal those before that block's ingestion began, the final state equals the unsliced run, at most m rounds. Plus an upgrade at every pause position (answers unchanged by it, ingestion completes, final answers equal the unsliced run) and set_config(syncing = disabled) at every pause position (ingestion still completes, without fetching), and two rounds with budget 0 at every pause position (no fetch, no processing, state unchanged).",
   note="budgets are counted in slicing call sites; statistics masked in fingerprints", ref="DESIGN.md §6 C08"),
 "C06": dict(cat=MC, engine="E2",
   technique="explicit-state exploration of pager/environment interleavings on the real canister (all placements of <= k environment events between page requests), plus exhaustive page-blob and real-limit families",
   text="From every LEDGER state a pager (page size 1/2, filters none / c=1 / c=2) follows next_page while between any two page requests the environment may deliver a block on any live block (tip growth, competing fork, reorg), ingest (unsliced or one step) or upgrade: every page must name the first tip, the concatenation must equal the ledger at that tip (within ceil(k/limit)+2 pages), and once the tip left the tree the answer must be UnknownTipBlockHash. ~400 crafted page blobs x 4 addresses never trap; 2001-output address with the real limit; zero-value outputs at page boundaries; one transaction with up to 1300 outputs to one address whose block stabilises between pages.",
   note="page size 1/2 through hook H3", ref="DESIGN.md §6 C06"),
 "C09": dict(cat=MC, engine="E1",
   technique="explicit-state exploration with an upgrade at every message boundary (incl. paused ingestion and, via the schedule explorer of C13, every fetch-protocol phase); complete probe set and complete logical state compared across the upgrade; differential continuation against the run without the upgrade",
   text="One upgrade (no argument / empty / new threshold / lazy fees) at every boundary of LEDGER histories with sliced ingestion: all probe answers and the complete logical state (syncing flags, per-block metrics, overridden config masked) must be identical before/after; for up to k further events the answers must equal those of the run where the upgrade is replaced by its plain set_config. Fee-carrying histories with an upgrade at any boundary are judged against the upgrade-oblivious fee reference of C15 (the fee endpoint mutates a cache and is not part of the side-effect-free probe set). A part with every configuration field away from its default (syncing disabled, api access disabled, lazy fees, sync gate, non-default fees, watchdog and burn settings) checks that the whole configuration survives; an all-zero fee table on mainnet / testnet likewise. Fetch-protocol phases (request parked, partial pages stored, complete response stored) are covered by the C13 exploration, which applies the same probe comparison at every Upgrade event.",
   note="native vector memory stands in for stable memory", ref="DESIGN.md §6 C09"),
 "C10": dict(cat=MC, engine="E1",
   technique="explicit-state exploration of base tree states x exhaustive enumeration of get_successors replies (items x announced headers) fed through the real heartbeat; atomicity by state comparison with the prefix-only reply",
   text="In every TREE state (<= 3-4 blocks, with and without pending announced headers, also reached through sliced ingestion) every reply of <= 2-3 items over 27 item kinds (incl. valid boundary timestamps, the block of an announced header, a block whose parent is only an announced header, a re-mined twin of a tree block) and every announced-header list of <= 2-3 entries over 10 kinds (incl. a header on top of a retained announced header, live or left over from a discarded fork): admitted blocks = longest admissible prefix, exactly one error counter +1 on a reject, complete state equal to the state after the prefix-only reply, heartbeat never traps, retained headers sound and complete; direct-call and heartbeat channels give equal states.",
   note="regtest (mined) blocks only", ref="DESIGN.md §6 C10"),
 "C11": dict(cat=EX, engine="E3",
   technique="bounded-exhaustive enumeration of header-chain configurations against an independent re-implementation of Core's difficulty and timestamp rules",
   text="Complete product of network (mainnet, testnet4, testnet3, regtest) x candidate position around period boundaries x bits patterns of the last four headers x gaps around 20 minutes x period timespans around the clamps x BIP94 first-bits variants, compared through wrappers of the private rule functions; timestamp rule on 6 patterns x chain lengths 1-14; end-to-end acceptance on regtest with mined/unmined headers; the canister's HeaderStore adaptor (height, header per height across stable store / unstable chain / pending announced headers, by-hash lookup, initial hash) is compared with the reference in every TREE+Hdr state through hook H9.",
   note="accept side on mainnet/testnet unreachable without real proof of work", ref="DESIGN.md §6 C11"),
 "C12": dict(cat=EX, engine="E3",
   technique="bounded-exhaustive enumeration of block mutations against an independent merkle routine and the four clauses of the statement",
   text="For every transaction count 1..17 (65 thorough): all trailing-2^k duplications closed under composition (every CVE-2012-2459 mutant), the same with the copies' witnesses altered (same txid, other wtxid), every removal, adjacent swap, rotation, coinbase moves/duplicates, with the root left alone and recomputed, through validate_block and insert_block (fresh canister; header announced before; the valid block right after a rejected same-header variant).",
   note="independent merkle root and txid uniqueness reference", ref="DESIGN.md §6 C12"),
 "C13": dict(cat=MC, engine="E2",
   technique="deviation-bounded exhaustive exploration of message schedules at the get_successors await point (heartbeats parked at a cfg-guarded yield point, harness as executor), duplicate detection on complete state",
   text="All schedules of {start heartbeat, normal/reject/empty reply, upgrade} with <= 4 (quick) / 7 (thorough) deviations from the sequential schedule over sources with pools of 4-6 blocks (with a fork, two competing branches, or a tall chain whose every reply announces new headers) and one block paginated into 1+p pages (p up to 3, and 255; one pool with an empty follow-up page), on a canister configured with a non-default blocks source: at most one request outstanding, follow-ups numbered consecutively, what is stored after the last page equals what the source sent (block bytes and the headers announced with the first page), every header of a processed reply is pending afterwards, requests go to the configured source, reject/upgrade discard partial data and the next request is initial naming anchor and all other unstable blocks, no block twice, no heartbeat traps, and from every state a fault-free suffix syncs everything the source offers.",
   note="source honours its protocol; upgrades leak outstanding heartbeats as the IC does", ref="DESIGN.md §6 C13"),
 "C14": dict(cat=MC, engine="E1",
   technique="explicit-state exploration of tree histories with announced-header events x flag combinations; every endpoint x requested network called in every state",
   text="TREE histories with chains of 1-4 announced headers on any live block (overtaken by arrivals, left on discarded forks, reached by the stable height) x the 4 flag combinations: 7 data endpoints x 3 networks must refuse iff access off, network mismatch, or (sync flag and highest connected announced header > best + 2; send_transaction exempt); exempt endpoints always answer. A mixed-difficulty part separates 'heaviest chain' from 'longest branch'. A schedule part (C13's explorer, sync flag on) lets the headers arrive the way they do in production - in complete and paginated get_successors replies, under rejects, upgrades and interleaved heartbeats - and judges the gate in every state, also when the flag is switched on in the middle of a history. In every state every validated announced header whose block has not arrived, above the stable height and attached to the tree, must still be pending.",
   note="headers of discarded forks are 'either' (C20 lets them be dropped)", ref="DESIGN.md §6 C14"),
 "C15": dict(cat=MC, engine="E1",
   technique="explicit-state exploration of fee-carrying histories through the real heartbeat against a stateful reference of the caching rule; exhaustive enumeration of the percentile routine; window boundary family",
   text="Histories of <= 4-5 blocks with five fee bodies (incl. a transaction whose outputs exceed its inputs) on any live block (forks with different fees, reorgs), replies with an undecodable item behind the block, upgrades, eager and lazy mode with query events: every answer equals nearest-rank percentiles of the reference fee rates of the chain observed at the last observation point. Percentile routine on n in [1,400] U {9999,10000,10001} x 5 patterns; 10,000-transaction window family.",
   note="inside the cut block both readings accepted", ref="DESIGN.md §6 C15"),
 "C16": dict(cat=EX, engine="E3",
   technique="bounded-exhaustive enumeration of fee tables x instruction counts x requests x available cycles through the real endpoints with controllable cycle and instruction mocks",
   text="3 default tables + a product of synthetic tables x 8 instruction-counter values x every endpoint (success and each request-level error) x available cycles around the maximum: accepted cycles equal the formula, queries free, underfunded calls refused before any charge; client cost functions cover the default maxima for both spellings of every network.",
   note="native cycle mock; maximum >= base", ref="DESIGN.md §6 C16"),
 "C17": dict(cat=MC, engine="E3",
   technique="exhaustive enumeration of explorer-result multisets x orders x canister heights through the real decision function, and of all two-round fetch histories through the real fetch/store/health path with mocked HTTP",
   text="Five target configurations x all multisets of heights in the band +-1 and failures x canister heights x permutations; two-round histories where each explorer independently answers in-band / far-off / failure: the decision equals the statement computed from the latest round alone.",
   note="inter-canister calls and timers not executed natively", ref="DESIGN.md §6 C17"),
 "C18": dict(cat=EX, engine="E3",
   technique="bounded-exhaustive enumeration of HTTP responses (statuses x header sets x generated bodies incl. every prefix and UTF-8 corruption) through all transform functions",
   text="All 10 exported transforms + the testnet endpoint x 7 statuses x ~330 header sets (all subsets of size <= 2 of 18 realistic headers, bulk sets): never trap, strip headers, keep status, body empty or canonical; extracted value equals the one known from the generating AST; identical bytes across headers, whitespace, member order, extra members; long bodies (every length to 700/2600 bytes of 1-4-byte characters) alone and inside valid documents.",
   note="documents rendered from the harness's AST", ref="DESIGN.md §6 C18"),
 "C19": dict(cat=EX, engine="E3",
   technique="bounded-exhaustive enumeration of payload mutations against an independent strict transaction parser and exact round trip",
   text="12 base transactions + 32 with field values at the edges of their types (incl. the null previous output) (amount pairs over {0,1,2^63,max-1,max}, 253 inputs/outputs) x every truncation, 1-byte extension, bit flip, marker/flag edge case x access flag x networks through the real async endpoint: success, counting and unchanged forwarding iff well-formed and permitted; repeated on a canister that is behind its announced headers (send_transaction is exempt from the sync gate), and on a canister initialised with a non-default blocks source (destination of the forwarded call).",
   note="payloads where the two references disagree are undecided", ref="DESIGN.md §6 C19"),
 "C20": dict(cat=MC, engine="E1",
   technique="explicit-state exploration with a structural oracle over the serialised unstable-block bookkeeping and the block cache in every state",
   text="LEDGER/TREE histories with discards at different depths, shared transactions, cross-fork spends, upgrades, sliced ingestion, competing announced headers whose blocks arrive in any order: tree order, block cache keys and bytes, per-block address deltas, tx-out cache reference counts and contents, cached tip depths and announced-header maps equal what the blocks below the anchor require, recomputed from block bodies; all queries and fee computations succeed.",
   note="announced headers exercised in C14 with the same structural checks", ref="DESIGN.md §6 C20"),
}
ALL = ["C%02d" % i for i in range(1, 21)]
hooks_commits = subprocess.run(["git", "-C", "/repo", "log", "--format=%H %s", "6e0e362f..HEAD"],
                               capture_output=True, text=True).stdout.strip().splitlines()
hook_shas = [l.split()[0] for l in hooks_commits if "verif hook" in l]
m = {
 "version": 1,
 "setup_cmd": "cd /verif/harness && CARGO_NET_OFFLINE=true cargo build --release --offline",
 "hooks": {
  "guard": "--cfg dfinity_bitcoin_canister_verif",
  "enable": "rustflags = [\"--cfg\", \"dfinity_bitcoin_canister_verif\"] in /verif/harness/.cargo/config.toml (own target dir /verif/harness/target); /repo built without the flag is unchanged code",
  "baseline_off_cmd": "cd /repo && cargo test --workspace --no-fail-fast --offline",
  "source_commits": hook_shas,
  "add_only": True,
 },
 "engines": [
  {"name": "E1", "path": "harness/src/engine.rs", "serves_properties": [], "kind_free_text": "explicit-state DFS over event histories of the real canister (state = history, backtracking = reset + replay, duplicate detection on the complete logical state), reference model in lock-step, 16 workers; self-checks: probes leave the state key unchanged, reset + replay reproduces the identical key"},
  {"name": "E2", "path": "harness/src/props/c08.rs", "serves_properties": [], "kind_free_text": "stateless exhaustive schedule enumeration (message/budget schedules at the await and slicing points), deviation-bounded where stated"},
  {"name": "E3", "path": "harness/src/props", "serves_properties": [], "kind_free_text": "bounded-exhaustive enumeration of a finite input product against a reference implementation"},
 ],
 "checks": [],
 "not_applicable": [],
 "notes": "All checks: ./check <id> quick|thorough; exit 0 held / 1 violation / 2 vacuous / 3 machinery error. Known findings: /verif/KNOWN_FINDINGS.json.",
}
for pid in ALL:
    if pid in CHECKS:
        c = CHECKS[pid]
        m["checks"].append({
            "property_id": pid,
            "quick_cmd": "./check %s quick" % pid,
            "thorough_cmd": "./check %s thorough" % pid,
            "evidence_file": "/verif/evidence/%s.json" % pid,
            "replay_cmd_template": "./check %s --replay {path}" % pid,
            "engine": c["engine"],
            "level_claimed": {"category": c["cat"], "text": c["text"], "design_ref": c["ref"]},
            "level_note": c["note"],
            "technique": c["technique"],
        })
        for e in m["engines"]:
            if e["name"] == c["engine"]:
                e["serves_properties"].append(pid)
    else:
        m["not_applicable"].append({"property_id": pid, "reason": "check not built yet in this session (model-checking design exists in DESIGN.md §6); not claimed until its quick check runs clean"})
json.dump(m, open(os.path.join(HERE, "MANIFEST.json"), "w"), indent=1)
print("checks:", len(m["checks"]), "not_applicable:", len(m["not_applicable"]))

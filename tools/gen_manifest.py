#!/usr/bin/env python3
"""Regenerates /verif/MANIFEST.json from the table below (kept next to the checks)."""
import json, subprocess, os
HERE = os.path.dirname(os.path.dirname(os.path.abspath(__file__)))
MC = "model_checking"
EX = "exploration"
CHECKS = {
 "C01": dict(cat=MC, engine="E1",
   technique="explicit-state exploration of the real canister (exhaustive DFS over block-arrival histories with transaction bodies, duplicate detection on the complete logical state) with a brute-force ledger replay as oracle",
   text="Every state reachable by <= n blocks (n=4 quick, 5 thorough) over a menu of 8 transaction bodies (<= 2-3 non-default per history), all tree shapes and arrival orders, thresholds 1-3, three networks: every book address (P2PKH, P2SH, P2WPKH, P2WSH, P2TR, a colliding P2WPKH/P2WSH prefix pair) is queried with all pages followed (page sizes 1000 and 1/2) and compared, as a set with values and heights, with the ledger replayed from genesis to the named tip. Plus the real 1000-per-page limit on 999..2001 outputs.",
   note="domain: transaction-valid blocks; address<->script mapping and hashing shared with rust-bitcoin; order inside one height not compared",
   ref="DESIGN.md §6 C01"),
 "C02": dict(cat=MC, engine="E1",
   technique="explicit-state exploration of the real canister: exhaustive DFS over block-arrival histories (all tree shapes x arrival orders x difficulty assignments x thresholds) with a brute-force reference chain selection as oracle in every state",
   text="Every state reachable by <= n block deliveries (n=5 quick, 6-7 thorough; difficulties {1,2,3}; thresholds 1-3; regtest through full validation, mainnet/testnet through push) is visited on the real code and get_blockchain_info / unfiltered get_utxos / get_balance / get_block_headers are compared with the heaviest chain recomputed by brute force (all leaf paths, (sum difficulty, length), arrival tie-break). Bounded exhaustive: nothing is claimed beyond the bound.",
   note="rust-bitcoin hashing/serialisation shared with the implementation; mock difficulty via feature mock_difficulty; ingestion unsliced in this check (sliced states belong to C07/C08)",
   ref="DESIGN.md §6 C02"),
 "C03": dict(cat=MC, engine="E1",
   technique="explicit-state exploration of the real canister with history monitors on every transition (six finality clauses) plus an exhaustively enumerated depth-escape family",
   text="All TREE histories (<= 4-5 quick, 5-7 thorough blocks; difficulties 1-3; thresholds 1-3 incl. set_config changes mid-history; three networks) with monitors on every transition: stable height monotone, recorded stable blocks immutable and on the anchor chain, every anchor advance goes to the child that qualifies under the difficulty rule (recomputed from scratch), no qualifying child is left after an ingestion opportunity, the new anchor is the second block of the served chain, blocks disappear only with the advance and exactly the losers. Depth escape: heavy anchor, main branch grown to 520 blocks against forks of 0-5 blocks, bound recomputed in exact rational arithmetic.",
   note="escape judged only where runner-up is unambiguous; wide-and-deep trees only via the family",
   ref="DESIGN.md §6 C03"),
 "C04": dict(cat=MC, engine="E1",
   technique="explicit-state exploration of the real canister; in every state all c in [1, L+2] x all addresses against the ledger at B(c) recomputed from the stability-count definition",
   text="LEDGER/TREE histories as C01 (equal and mixed difficulty); for every address and every c the named tip must be B(c) and the paged answer must equal the ledger at B(c); c > L must be refused with the explicit error.",
   note="c=0 belongs to C01/C02", ref="DESIGN.md §6 C04"),
 "C05": dict(cat=MC, engine="E1",
   technique="explicit-state exploration of the real canister incl. states in the middle of sliced ingestion; differential oracle balance vs sum of paged UTXOs, error classes, query vs update variants",
   text="In every explored state (forks, paused ingestion with budgets 1/2), for every address and c in {none, 0..L+1}: get_balance == sum over all pages of get_utxos; ~45 malformed / foreign-network address strings must be refused by both with the same error class; update variants return what query variants return.",
   note="differential: needs no reference value", ref="DESIGN.md §6 C05"),
 "C07": dict(cat=MC, engine="E1",
   technique="explicit-state exploration of the real canister with sliced ingestion and upgrades; all (start,end) pairs per state against the reference chain; long-chain boundary family",
   text="TREE histories with ingestion budgets 1/2/unlimited (every pause point of the explored shapes) and upgrades; in every state all (start, end) up to tip+2 are compared header by header with the reference chain, errors with the documented ones; a 130/230-block family probes the 100-header cap and the stable boundary with and without a paused ingestion.",
   note="where two documented errors apply either is accepted", ref="DESIGN.md §6 C07"),
 "C08": dict(cat=MC, engine="E2",
   technique="exhaustive enumeration of all budget schedules (compositions of the slicing call sites) of a stabilising block, driven through the real heartbeat; state-equality across schedules and probe-equality against the pre-ingestion answers",
   text="For 7 block shapes (spends of stable outputs, same-block spend, non-address scripts, many addresses, several blocks per round, fork discarded by the advance) all 2^(m-1) sequences of per-round budgets (m <= 14 quick, 18 thorough) are run through heartbeat() with a source that always offers a further block: no fetch while ingesting, every pause position reaches one identical state whatever the schedule, all probe answers at pauses equal those before that block's ingestion began, the final state equals the unsliced run, at most m rounds.",
   note="budgets are counted in slicing call sites; statistics masked in fingerprints", ref="DESIGN.md §6 C08"),
}
ALL = ["C%02d" % i for i in range(1, 21)]
hooks_commits = subprocess.run(["git", "-C", "/repo", "log", "--format=%H %s", "6e0e362f..HEAD"],
                               capture_output=True, text=True).stdout.strip().splitlines()
hook_shas = [l.split()[0] for l in hooks_commits if "verif hook" in l]
m = {
 "version": 1,
 "setup_cmd": "cd /verif/harness && CARGO_NET_OFFLINE=true cargo build --release --offline",
 "hooks": {
  "guard": "--cfg dfinity_bitcoin_canister_verif",
  "enable": "rustflags = [\"--cfg\", \"dfinity_bitcoin_canister_verif\"] in /verif/harness/.cargo/config.toml (own target dir /verif/harness/target); /repo built without the flag is unchanged code",
  "baseline_off_cmd": "cd /repo && cargo test --workspace --no-fail-fast --offline",
  "source_commits": hook_shas,
  "add_only": True,
 },
 "engines": [
  {"name": "E1", "path": "harness/src/engine.rs", "serves_properties": [], "kind_free_text": "explicit-state DFS over event histories of the real canister (state = history, backtracking = reset + replay, duplicate detection on the complete logical state), reference model in lock-step, 16 workers"},
  {"name": "E2", "path": "harness/src/props/c08.rs", "serves_properties": [], "kind_free_text": "stateless exhaustive schedule enumeration (message/budget schedules at the await and slicing points), deviation-bounded where stated"},
  {"name": "E3", "path": "harness/src/props", "serves_properties": [], "kind_free_text": "bounded-exhaustive enumeration of a finite input product against a reference implementation"},
 ],
 "checks": [],
 "not_applicable": [],
 "notes": "All checks: ./check <id> quick|thorough; exit 0 held / 1 violation / 2 vacuous / 3 machinery error. Known findings: /verif/KNOWN_FINDINGS.json.",
}
for pid in ALL:
    if pid in CHECKS:
        c = CHECKS[pid]
        m["checks"].append({
            "property_id": pid,
            "quick_cmd": "./check %s quick" % pid,
            "thorough_cmd": "./check %s thorough" % pid,
            "evidence_file": "/verif/evidence/%s.json" % pid,
            "replay_cmd_template": "./check %s --replay {path}" % pid,
            "engine": c["engine"],
            "level_claimed": {"category": c["cat"], "text": c["text"], "design_ref": c["ref"]},
            "level_note": c["note"],
            "technique": c["technique"],
        })
        for e in m["engines"]:
            if e["name"] == c["engine"]:
                e["serves_properties"].append(pid)
    else:
        m["not_applicable"].append({"property_id": pid, "reason": "check not built yet in this session (model-checking design exists in DESIGN.md §6); not claimed until its quick check runs clean"})
json.dump(m, open(os.path.join(HERE, "MANIFEST.json"), "w"), indent=1)
print("checks:", len(m["checks"]), "not_applicable:", len(m["not_applicable"]))

#!/usr/bin/env python3
"""Regenerates /verif/MANIFEST.json from the table below (kept next to the checks)."""
import json, subprocess, os
HERE = os.path.dirname(os.path.dirname(os.path.abspath(__file__)))
MC = "model_checking"
EX = "exploration"
CHECKS = {
 "C02": dict(cat=MC, engine="E1",
   technique="explicit-state exploration of the real canister: exhaustive DFS over block-arrival histories (all tree shapes x arrival orders x difficulty assignments x thresholds) with a brute-force reference chain selection as oracle in every state",
   text="Every state reachable by <= n block deliveries (n=5 quick, 6-7 thorough; difficulties {1,2,3}; thresholds 1-3; regtest through full validation, mainnet/testnet through push) is visited on the real code and get_blockchain_info / unfiltered get_utxos / get_balance / get_block_headers are compared with the heaviest chain recomputed by brute force (all leaf paths, (sum difficulty, length), arrival tie-break). Bounded exhaustive: nothing is claimed beyond the bound.",
   note="rust-bitcoin hashing/serialisation shared with the implementation; mock difficulty via feature mock_difficulty; ingestion unsliced in this check (sliced states belong to C07/C08)",
   ref="DESIGN.md §6 C02"),
}
ALL = ["C%02d" % i for i in range(1, 21)]
hooks_commits = subprocess.run(["git", "-C", "/repo", "log", "--format=%H %s", "6e0e362f..HEAD"],
                               capture_output=True, text=True).stdout.strip().splitlines()
hook_shas = [l.split()[0] for l in hooks_commits if "verif hook" in l]
m = {
 "version": 1,
 "setup_cmd": "cd /verif/harness && CARGO_NET_OFFLINE=true cargo build --release --offline",
 "hooks": {
  "guard": "--cfg dfinity_bitcoin_canister_verif",
  "enable": "rustflags = [\"--cfg\", \"dfinity_bitcoin_canister_verif\"] in /verif/harness/.cargo/config.toml (own target dir /verif/harness/target); /repo built without the flag is unchanged code",
  "baseline_off_cmd": "cd /repo && cargo test --workspace --no-fail-fast --offline",
  "source_commits": hook_shas,
  "add_only": True,
 },
 "engines": [
  {"name": "E1", "path": "harness/src/engine.rs", "serves_properties": [], "kind_free_text": "explicit-state DFS over event histories of the real canister (state = history, backtracking = reset + replay), reference model in lock-step, 16 workers"},
 ],
 "checks": [],
 "not_applicable": [],
 "notes": "All checks: ./check <id> quick|thorough; exit 0 held / 1 violation / 2 vacuous / 3 machinery error. Known findings: /verif/KNOWN_FINDINGS.json.",
}
for pid in ALL:
    if pid in CHECKS:
        c = CHECKS[pid]
        m["checks"].append({
            "property_id": pid,
            "quick_cmd": "./check %s quick" % pid,
            "thorough_cmd": "./check %s thorough" % pid,
            "evidence_file": "/verif/evidence/%s.json" % pid,
            "replay_cmd_template": "./check %s --replay {path}" % pid,
            "engine": c["engine"],
            "level_claimed": {"category": c["cat"], "text": c["text"], "design_ref": c["ref"]},
            "level_note": c["note"],
            "technique": c["technique"],
        })
        for e in m["engines"]:
            if e["name"] == c["engine"]:
                e["serves_properties"].append(pid)
    else:
        m["not_applicable"].append({"property_id": pid, "reason": "check not built yet in this session (model-checking design exists in DESIGN.md §6); not claimed until its quick check runs clean"})
json.dump(m, open(os.path.join(HERE, "MANIFEST.json"), "w"), indent=1)
print("checks:", len(m["checks"]), "not_applicable:", len(m["not_applicable"]))

#!/usr/bin/env python3
"""Prints a markdown table from the evidence files (states, transitions, wall time, level)."""
import json, glob, os
rows = []
for f in sorted(glob.glob('/verif/evidence/C*.json')):
    e = json.load(open(f)); c = e['coverage']
    rows.append("| %s | %s | %s | %s | %s | %s | %s | %.1f s |" % (
        e['property_id'], e['tier'], e['level'], c.get('states', c.get('evaluations')), c.get('transitions', '-'),
        c.get('traces_validated_against_impl', '-'), c.get('distinct_nontrivial'), e['wall_s']))
print("| property | tier | level | states / evaluations | transitions | traces on the real code | distinct | wall |")
print("|---|---|---|---|---|---|---|---|")
print("\n".join(rows))

#!/bin/bash
# usage: try_benign.sh <patch file> [<check id> ...]   (default: all 20; TIER=quick|thorough)
# Applies a behaviour-preserving change on the scratch mirror and expects every check to stay
# silent (exit 0, no VIOLATION line). /repo is not touched.
patch=$1; shift
tier=${TIER:-quick}
checks=${@:-C01 C02 C03 C04 C05 C06 C07 C08 C09 C10 C11 C12 C13 C14 C15 C16 C17 C18 C19 C20}
git -C /tmp/repo2 checkout -q -- .
git -C /tmp/repo2 apply "$patch" || { echo "patch does not apply"; exit 3; }
for c in $checks; do
  out=$(VERIF_OUT=/tmp/h2out /tmp/h2/check $c $tier 2>&1); code=$?
  if [ $code = 0 ] && ! echo "$out" | grep -q '^VIOLATION'; then v=QUIET; else v="ALARM(exit=$code)"; fi
  echo "$(basename $(dirname $patch)) $c $tier $v $(echo "$out" | grep -o 'kind=[a-zA-Z0-9:_-]*' | sort | uniq -c | tr '\n' ' ') $(echo "$out" | grep -m1 'MACHINERY\|error' | cut -c1-160)"
done
git -C /tmp/repo2 checkout -q -- .

#!/usr/bin/env python3
"""Compares a nextest log with the stable baseline: prints stable tests that failed / are missing."""
import json, re, sys
b = json.load(open('/root/.vp/BASELINE.json'))
stable = set(b['stable_pass'])
log = open(sys.argv[1]).read()
fails = set(m.group(1) + '::' + m.group(2) for m in re.finditer(r'FAIL \[\s*[\d.]+s\] \(\s*\d+/\d+\) (\S+) (\S+)', log))
m = re.search(r'(\d+) tests run: (\d+) passed, (\d+) failed', log)
print("summary:", m.group(0) if m else "none")
bad = sorted(s for s in stable if s in fails)
print("stable tests failing:", bad)
sys.exit(1 if bad or not m else 0)

#!/usr/bin/env python3
"""install_seed.py <id> <source dir> '<detected json>'  -> /verif/seeded/<id>/{patch.diff,demo.diff,meta.json}"""
import json, os, shutil, sys, re
sid, src, det = sys.argv[1], sys.argv[2], json.loads(sys.argv[3])
dst = os.path.join(os.environ.get('SEED_DIR','/verif/seeded'), sid)
os.makedirs(dst, exist_ok=True)
for f in ('patch.diff', 'demo.diff'):
    shutil.copy(os.path.join(src, f), os.path.join(dst, f))
m = json.load(open(os.path.join(src, 'meta.json')))
conf = {}
for name in ('confirm_demo_without_patch.log', 'confirm_demo_with_patch.log', 'confirm_suite_with_patch.log'):
    p = os.path.join(src, name)
    if os.path.exists(p):
        t = open(p).read()
        res = re.findall(r'^test result: (\w+)\. (\d+) passed; (\d+) failed', t, re.M)
        conf[name.replace('confirm_', '').replace('.log', '')] = [{'result': r[0], 'passed': int(r[1]), 'failed': int(r[2])} for r in res if int(r[1]) + int(r[2]) > 0]
meta = {
    'property': m.get('property', sid),
    'origin': 'independent sub-agent given only the property text and a scratch worktree',
    'summary': m.get('summary'),
    'needs_to_manifest': m.get('needs_to_manifest'),
    'files_changed': m.get('files_changed'),
    'demo_test': m.get('demo_test'),
    'confirmed_by_me': {
        'how': 'in a scratch worktree: demo.diff alone -> demo passes; demo.diff + patch.diff -> demo fails; patch.diff alone -> cargo test -p <crate> --offline --no-fail-fast, every test of the stable baseline of that crate still ok',
        'results': conf,
    },
    'detection': det,
}
json.dump(meta, open(os.path.join(dst, 'meta.json'), 'w'), indent=1)
print('installed', dst)

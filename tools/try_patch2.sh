#!/bin/bash
# usage: try_patch2.sh <patch file> <check id> [<check id> ...]    (TIER=quick|thorough)
# like try_patch.sh but on the scratch mirror (/tmp/h2 + /tmp/repo2): /repo is not touched
patch=$1; shift
tier=${TIER:-quick}
git -C /tmp/repo2 checkout -q -- . 
git -C /tmp/repo2 apply "$patch" || { echo "patch does not apply"; exit 3; }
for c in "$@"; do
  out=$(VERIF_OUT=/tmp/h2out /tmp/h2/check $c $tier 2>&1); code=$?
  case $code in 1) v=DETECTED;; 0) v=MISSED;; *) v="EXIT$code";; esac
  echo "$(basename $(dirname $patch))/$(basename $patch) $c $tier $v $(echo "$out" | grep -o 'kind=[a-zA-Z0-9:_-]*' | sort | uniq -c | tr '\n' ' ')"
done
git -C /tmp/repo2 checkout -q -- .

#!/bin/bash
# usage: matrix.sh <dir with <id>/patch.diff> <out file>   runs every quick check against every patch on the scratch mirror
dir=$1; outf=$2; : > $outf
ALL="C01 C02 C03 C04 C05 C06 C07 C08 C09 C10 C11 C12 C13 C14 C15 C16 C17 C18 C19 C20"
for d in $dir/*/; do
  id=$(basename $d)
  [ -f $d/patch.diff ] || continue
  /verif/tools/try_patch2.sh $d/patch.diff $ALL >> $outf 2>&1
done

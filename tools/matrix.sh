#!/bin/bash
# usage: matrix.sh [own|all] <out file> <seed dir>...
#   own: every installed change against the quick check of its own property
#   all: every installed change against every quick check
# Runs on the scratch mirror (tools/mirror.sh: /tmp/h2 + /tmp/repo2), /repo is not touched.
mode=$1; outf=$2; shift 2; : > $outf
ALL="C01 C02 C03 C04 C05 C06 C07 C08 C09 C10 C11 C12 C13 C14 C15 C16 C17 C18 C19 C20"
/verif/tools/mirror.sh > /dev/null || exit 3
for dir in "$@"; do
  for d in $dir/*/; do
    id=$(basename $d)
    [ -f $d/patch.diff ] || continue
    if [ "$mode" = all ]; then checks=$ALL; else checks=$id; fi
    /verif/tools/try_patch2.sh $d/patch.diff $checks 2>&1 | sed "s#^#$(basename $dir)/#" >> $outf
  done
done
echo "detected: $(grep -c DETECTED $outf)  missed: $(grep -c MISSED $outf)  other: $(grep -vc 'DETECTED\|MISSED' $outf)" >> $outf
